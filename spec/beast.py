"""Reference framers for the three TCP stream formats (written from the format docstrings).

Each reference takes the *whole* byte stream (list of ints) and returns the list of frames
with, for every frame, the stream offsets needed for the progress oracle:
   (payload, end, lenient)     payload = what handle_messages must receive (hex string, + extras)
                               end     = number of stream bytes after which all bytes of the frame have arrived
                               lenient = number of stream bytes after which the framer is *obliged* to have emitted it
"""
ESC = 0x1A
LONG_ONLY = (16, 17, 18, 19, 20, 21, 24)
SHORT_ONLY = (0, 4, 5, 11)


def df_of(hexmsg):
    return min(int(hexmsg[:2], 16) >> 3, 24)


ASSIGNED = (0, 4, 5, 11, 16, 17, 18, 20, 21, 24)


def optional(hexmsg):
    """True for frames the property does not oblige a framer to deliver (nor forbids it to): downlink formats that are
    not assigned civil Mode S formats (incl. the military DF19) and frames whose length contradicts their format.  If
    such a frame IS delivered it must still be delivered intact, in order and once."""
    d = df_of(hexmsg)
    if d not in ASSIGNED:
        return True
    return not admitted(hexmsg)


def admitted(hexmsg):
    d = df_of(hexmsg)
    if d in SHORT_ONLY and len(hexmsg) != 14:
        return False
    if d in LONG_ONLY and len(hexmsg) != 28:
        return False
    return len(hexmsg) in (14, 28)


# ---------------------------------------------------------------- Beast
def beast_frame(ftype, ts6, sig, payload):
    """wire bytes of one Beast frame: ESC type, then ts/sig/payload with every 0x1A doubled."""
    out = [ESC, ftype]
    for b in list(ts6) + [sig] + list(payload):
        out.append(b)
        if b == ESC:
            out.append(ESC)
    return out


def beast_reference(stream):
    frames = []
    i = 0
    n = len(stream)
    # skip garbage before the first frame start
    cur = None          # (type, bytes, start)
    while i < n:
        b = stream[i]
        if b == ESC:
            if i + 1 >= n:
                break
            if stream[i + 1] == ESC:
                if cur is not None:
                    cur[1].append(ESC)
                i += 2
                continue
            # frame start
            if cur is not None:
                frames.append((cur[0], cur[1], cur[2], i, i + 2))
            cur = [stream[i + 1], [], i]
            i += 2
            continue
        if cur is not None:
            cur[1].append(b)
        i += 1
    out = []
    for ftype, body, start, end, lenient in frames:
        if ftype == 0x32:
            msg = "".join("%02X" % x for x in body[7:14])
        elif ftype == 0x33:
            msg = "".join("%02X" % x for x in body[7:21])
        else:
            continue
        if len(body) < (14 if ftype == 0x32 else 21):
            continue                    # not even a whole payload between two frame starts: nothing to deliver
        out.append({"msg": msg, "sig": body[6] if len(body) > 6 else None, "end": end, "lenient": lenient, "optional": optional(msg)})
    return out


# ---------------------------------------------------------------- raw (AVR)
HEXCH = set(b"0123456789abcdefABCDEF")


def raw_frame(hexmsg, sep=b"\n"):
    return list(b"*" + hexmsg.encode() + b";" + sep)


def raw_reference(stream):
    out = []
    cur = None
    for i, b in enumerate(stream):
        if b == 42:
            cur = []
        elif b == 59:
            if cur is not None:
                m_ = "".join(map(chr, cur))
                out.append({"msg": m_, "end": i + 1, "lenient": i + 1, "optional": len(m_) not in (14, 28) or optional(m_.upper())})
            cur = None
        elif cur is not None and b in HEXCH:
            cur.append(b)
    return out


# ---------------------------------------------------------------- Skysense
def skysense_frame(payload14, ts6, rs3):
    assert len(payload14) == 14 and len(ts6) == 6 and len(rs3) == 3
    return [0x24] + list(payload14) + list(ts6) + list(rs3)


def skysense_reference(stream):
    out = []
    i = 0
    while i + 24 < len(stream):
        if stream[i] == 0x24 and stream[i + 24] == 0x24:
            p = stream[i + 1:i + 15]
            msg = "".join("%02X" % x for x in (p if p[0] >> 7 else p[:7]))
            t = stream[i + 15:i + 21]
            sec = ((t[0] & 0x7F) << 10) | (t[1] << 2) | (t[2] >> 6)
            nano = ((t[2] & 0x3F) << 24) | (t[3] << 16) | (t[4] << 8) | t[5]
            out.append({"msg": msg, "ts": sec + nano * 1.0e-9, "end": i + 24, "lenient": i + 25, "optional": optional(msg)})
            i += 24
        else:
            i += 1
    return out
