"""Frame builders (encoding direction) on integers. Bit positions are 1-based, MSB first,
as in Annex 10 / DO-260B tables."""
from spec import crc as R


def put(total, start, length, value):
    """value placed in bits start..start+length-1 of a total-bit word."""
    assert 0 <= value < (1 << length), (start, length, value)
    return value << (total - start - length + 1)


def build(total, fields):
    """fields: iterable of (start, length, value)."""
    w = 0
    for s, l, v in fields:
        w |= put(total, s, l, v)
    return w


def hexn(v, n):
    return "%0*X" % (n // 4, v)


def short_ap(df, rest27=0, addr=0):
    """56-bit frame: DF(5) rest(27) AP(24) with address overlay."""
    data = (df << 27) | rest27
    return hexn(R.downlink(data, 56, addr), 56)


def long_ap(df, rest27=0, mb=0, addr=0):
    """112-bit frame: DF(5) rest(27) MB/MV(56) AP(24) with address overlay."""
    data = (((df << 27) | rest27) << 56) | mb
    return hexn(R.downlink(data, 112, addr), 112)


def es(me, aa=0x406B90, ca=5, df=17, pi=0):
    """Extended squitter DF17/18: DF(5) CA/CF(3) AA(24) ME(56) PI(24)."""
    data = (((df << 3 | ca) << 24 | aa) << 56) | me
    return hexn(R.downlink(data, 112, pi), 112)


def df11(aa, ca=5, ic=0):
    data = ((11 << 3 | ca) << 24) | aa
    return hexn(R.downlink(data, 56, ic), 56)


def me(tc, fields=(), rest=0):
    """56-bit ME: TC in bits 1-5, other fields by (start,len,value), OR-ed with rest."""
    return put(56, 1, 5, tc) | build(56, fields) | rest


def raw(n, df, rest):
    """arbitrary n-bit frame with DF and the remaining n-5 bits given (parity not recomputed)."""
    return hexn((df << (n - 5)) | rest, n)


def with_case(h, mode):
    if mode == "U":
        return h.upper()
    if mode == "l":
        return h.lower()
    return "".join(c.lower() if i % 2 else c.upper() for i, c in enumerate(h))


def backgrounds(nbits, seed, k=3):
    """zeros, ones, 0x55.., 0xAA.., and k seeded values, for an nbits-wide region."""
    import random
    rng = random.Random(seed * 7919 + nbits)
    ones = (1 << nbits) - 1
    b = [0, ones, int("55" * ((nbits + 7) // 8), 16) & ones, int("AA" * ((nbits + 7) // 8), 16) & ones]
    b += [rng.getrandbits(nbits) for _ in range(k)]
    return b
