"""Altitude code tables built in the ENCODING direction (Annex 10 Vol IV 3.1.2.6.5.4 and
the Gillham code of the Appendix to chapter 3).

13-bit AC field order:  C1 A1 C2 A2 C4 A4 M B1 Q B2 D2 B4 D4
"""
ORDER = ["C1", "A1", "C2", "A2", "C4", "A4", "M", "B1", "Q", "B2", "D2", "B4", "D4"]
POS = {name: i for i, name in enumerate(ORDER)}          # index from the MSB
C_SEQ = [0b001, 0b011, 0b010, 0b110, 0b100]             # C1 C2 C4 for rising 100-ft steps


def _place(bits):
    """bits: dict name->0/1 ; returns the 13-bit integer."""
    v = 0
    for name, b in bits.items():
        if b:
            v |= 1 << (12 - POS[name])
    return v


def gillham_encode(alt_ft):
    """13-bit code (M=0,Q=0) of an altitude in -1200..126700, multiple of 100."""
    n = (alt_ft + 1200) // 100
    n500, k = divmod(n, 5)
    c = C_SEQ[4 - k] if n500 % 2 else C_SEQ[k]
    g = n500 ^ (n500 >> 1)                                 # D2 D4 A1 A2 A4 B1 B2 B4
    names500 = ["D2", "D4", "A1", "A2", "A4", "B1", "B2", "B4"]
    bits = {nm: (g >> (7 - i)) & 1 for i, nm in enumerate(names500)}
    bits.update({"C1": (c >> 2) & 1, "C2": (c >> 1) & 1, "C4": c & 1})
    return _place(bits)


def q1_encode(n):
    """13-bit code with M=0, Q=1 and the 11-bit value n (altitude 25n-1000)."""
    hi6 = (n >> 5) & 0x3F      # C1..A4
    b1 = (n >> 4) & 1
    lo4 = n & 0xF              # B2 D2 B4 D4
    return (hi6 << 7) | (0 << 6) | (b1 << 5) | (1 << 4) | lo4


def table13():
    """dict code -> expected altitude (int ft) or None, for all M=0 codes; M=1 codes map to
    ('metric', n12) where n12 is the 12-bit value with M removed."""
    t = {}
    for code in range(8192):
        m = (code >> 6) & 1
        q = (code >> 4) & 1
        if code == 0:
            t[code] = None
        elif m:
            n12 = ((code >> 7) << 6) | (code & 0x3F)
            t[code] = ("metric", n12)
        elif q:
            t[code] = None  # filled below
        else:
            t[code] = None
    for n in range(2048):
        t[q1_encode(n)] = 25 * n - 1000
    gil = {}
    for alt in range(-1200, 126701, 100):
        c = gillham_encode(alt)
        assert c not in gil
        gil[c] = alt
    assert len(gil) == 1280
    for c, a in gil.items():
        assert (c >> 6) & 1 == 0 and (c >> 4) & 1 == 0 and c != 0
        t[c] = a
    return t, gil


def ac12_to_13(c12):
    """ADS-B 12-bit altitude field -> 13-bit code with M=0 inserted."""
    return ((c12 >> 6) << 7) | (c12 & 0x3F)
