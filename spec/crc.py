"""Reference Mode S parity (Annex 10 Vol IV 3.1.2.3.3), on integers, bit-serial.

A frame of n bits is the integer whose bit n-1 is the first transmitted bit.
G(x) = x^24+x^23+...+x^12+x^10+x^3+1  = 0x1FFF409.
"""
G = 0x1FFF409


def remainder(frame: int, n: int) -> int:
    """Remainder of the n-bit frame polynomial modulo G (24-bit int)."""
    r = frame
    for i in range(n - 1, 23, -1):
        if (r >> i) & 1:
            r ^= G << (i - 24)
    return r & 0xFFFFFF


def parity(data: int, nd: int) -> int:
    """Parity of nd data bits (remainder of data * x^24)."""
    return remainder(data << 24, nd + 24)


def hexf(frame: int, n: int) -> str:
    return "%0*X" % (n // 4, frame)


def downlink(data: int, n: int, overlay: int = 0) -> int:
    """n-bit downlink frame: data bits followed by parity XOR overlay (AP / PI)."""
    nd = n - 24
    return (data << 24) | (parity(data, nd) ^ overlay)


def uplink_ap(data: int, n: int, address: int) -> int:
    """Uplink AP field: parity XOR the upper 24 bits of address(x) * G(x) ... per
    Annex 10 3.1.2.3.3.2: the address is multiplied by G and the top 24 bits of
    the 48-bit product are overlaid."""
    prod = 0
    for i in range(24):
        if (address >> i) & 1:
            prod ^= G << i
    top = (prod >> 24) & 0xFFFFFF
    return parity(data, n - 24) ^ top


def uplink(data: int, n: int, address: int) -> int:
    return (data << 24) | uplink_ap(data, n, address)
