"""Reference Mode S parity (Annex 10 Vol IV 3.1.2.3.3), on integers, bit-serial.

A frame of n bits is the integer whose bit n-1 is the first transmitted bit.
G(x) = x^24+x^23+...+x^12+x^10+x^3+1  = 0x1FFF409.
"""
G = 0x1FFF409


def remainder(frame: int, n: int) -> int:
    """Remainder of the n-bit frame polynomial modulo G (24-bit int)."""
    r = frame
    for i in range(n - 1, 23, -1):
        if (r >> i) & 1:
            r ^= G << (i - 24)
    return r & 0xFFFFFF


def parity(data: int, nd: int) -> int:
    """Parity of nd data bits (remainder of data * x^24)."""
    return remainder(data << 24, nd + 24)


def hexf(frame: int, n: int) -> str:
    return "%0*X" % (n // 4, frame)


def downlink(data: int, n: int, overlay: int = 0) -> int:
    """n-bit downlink frame: data bits followed by parity XOR overlay (AP / PI)."""
    nd = n - 24
    return (data << 24) | (parity(data, nd) ^ overlay)


def uplink_ap(data: int, n: int, address: int) -> int:
    """Uplink AP field: parity XOR the upper 24 bits of address(x) * G(x) ... per
    Annex 10 3.1.2.3.3.2: the address is multiplied by G and the top 24 bits of
    the 48-bit product are overlaid."""
    prod = 0
    for i in range(24):
        if (address >> i) & 1:
            prod ^= G << i
    top = (prod >> 24) & 0xFFFFFF
    return parity(data, n - 24) ^ top


def uplink(data: int, n: int, address: int) -> int:
    return (data << 24) | uplink_ap(data, n, address)


def solve_low24(prefix: int, nprefix: int, want_parity: int) -> int:
    """the 24-bit value a such that parity(prefix||a) == want_parity, where prefix has nprefix bits (the parity is GF(2)
    linear and, restricted to the last 24 data bits, a bijection): used to build frames whose wire parity field takes a
    chosen value, e.g. a DF11 reply whose PI field is 000000 although an interrogator code is overlaid."""
    nd = nprefix + 24
    target = want_parity ^ parity(prefix << 24, nd)
    # Gaussian elimination over the images of the 24 unit vectors
    basis = {}          # leading bit -> (image, preimage)
    for i in range(24):
        img, pre = parity(1 << i, nd), 1 << i
        while img:
            hb = img.bit_length() - 1
            if hb not in basis:
                basis[hb] = (img, pre)
                break
            bi, bp = basis[hb]
            img ^= bi
            pre ^= bp
    a = 0
    t = target
    while t:
        hb = t.bit_length() - 1
        bi, bp = basis[hb]
        t ^= bi
        a ^= bp
    assert parity((prefix << 24) | a, nd) == want_parity
    return a
