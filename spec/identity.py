"""Identity (Mode A) code placement, Annex 10 Vol IV 3.1.2.6.7.1:
   C1 A1 C2 A2 C4 A4 X B1 D1 B2 D2 B4 D4   (13 bits, MSB first)."""
ORDER = ["C1", "A1", "C2", "A2", "C4", "A4", "X", "B1", "D1", "B2", "D2", "B4", "D4"]
POS = {n: i for i, n in enumerate(ORDER)}


def encode(a, b, c, d, x=0):
    bits = {"X": x}
    for letter, v in (("A", a), ("B", b), ("C", c), ("D", d)):
        for w in (4, 2, 1):
            bits[letter + str(w)] = 1 if v & w else 0
    code = 0
    for n, bit in bits.items():
        if bit:
            code |= 1 << (12 - POS[n])
    return code


def all_codes():
    """yield (code13, 'ABCD') for all 4096 squawks x X in {0,1}."""
    for a in range(8):
        for b in range(8):
            for c in range(8):
                for d in range(8):
                    for x in (0, 1):
                        yield encode(a, b, c, d, x), "%d%d%d%d" % (a, b, c, d)
