"""Mode S pulse-position modulation at 2 samples per microsecond (Annex 10 Vol IV 3.1.2.1.4/5).

Preamble: four 0.5 us pulses starting at 0, 1.0, 3.5, 4.5 us (samples 0, 2, 7, 9 of 16).
Data: 1 us per bit; bit 1 = pulse in the first half (sample pair high,low), bit 0 = (low,high).
Pulses have amplitude A exactly ("cleanly modulated"); low samples carry the noise value.
"""
PRE = [1, 0, 1, 0, 0, 0, 0, 1, 0, 1, 0, 0, 0, 0, 0, 0]


def noise_gen(shape, level, seed=1):
    """infinite generator of noise amplitudes with peak `level`."""
    k = 0
    x = (seed * 2654435761 + 12345) & 0xFFFFFFFF
    while True:
        if level == 0:
            yield 0.0
        elif shape == "const":
            yield level
        elif shape == "alt":
            yield level if k % 2 == 0 else level * 0.5
        else:  # lcg: uniform in [0.2, 1.0] * level
            x = (1103515245 * x + 12345) & 0x7FFFFFFF
            yield level * (0.2 + 0.8 * (x / 0x7FFFFFFF))
        k += 1


def modulate(hexmsg, amp, noise):
    """samples of preamble + data for one frame; `noise` is a generator for the low samples."""
    nbits = len(hexmsg) * 4
    v = int(hexmsg, 16)
    out = [amp if p else next(noise) for p in PRE]
    for i in range(nbits - 1, -1, -1):
        if (v >> i) & 1:
            out.append(amp)
            out.append(next(noise))
        else:
            out.append(next(noise))
            out.append(amp)
    return out


def frame_samples(hexmsg):
    return 16 + 8 * len(hexmsg)
