"""Position alphabets for the CPR checks (C03, C04, C05): breakpoint-directed lattices.

All values are Fractions of a degree; 'bin' is the CPR latitude quantum of the even lattice.
"""
from fractions import Fraction as Fr

from spec import cpr as C


def lat_alphabet(surface=False, dense=False):
    binw = Fr(90 if surface else 360, 60 * (1 << 17))
    offs = [-3, -1, Fr(-1, 2), 0, Fr(1, 2), 1, 3]
    if dense:
        offs = sorted(set(offs + [-8, -5, -2, 2, 5, 8, -40, 40]))
    out = []
    for nl, t in C.TRANS.items():
        tf = Fr(t)
        for sgn in (1, -1):
            for o in offs:
                out.append(sgn * (tf + o * binw))
    # zone edges of both lattices
    top = 90
    d0 = Fr(90 if surface else 360, 60)
    d1 = Fr(90 if surface else 360, 59)
    for d in (d0, d1):
        k = 0
        step = 1 if (dense or not surface) else 4
        while k * d <= top:
            for sgn in (1, -1):
                for o in (-1, 0, 1):
                    out.append(sgn * k * d + o * binw)
            k += step
    for base in (Fr(90), Fr(-90), Fr(87), Fr(-87), Fr(0)):
        for o in (-4000, -10, -1, 0, 1, 10, 4000):
            out.append(base + o * binw)
    out += [Fr(521, 10), Fr(-337, 10), Fr(12345, 1000), Fr(-667, 10), Fr(45), Fr(-45), Fr(8651, 100), Fr(-8651, 100)]
    out = [x for x in out if -90 <= x <= 90]
    return list(dict.fromkeys(out))


def lon_alphabet(lat, surface=False, dense=False):
    nl = C.NL(lat)
    full = 90 if surface else 360
    out = []
    for n in {max(nl, 1), max(nl - 1, 1)}:
        d = Fr(full, n)
        binw = d / (1 << 17)
        ms = {0, 1, n // 2, n - 1}
        if dense:
            ms |= {2, n // 3, n - 2}
        for m in ms:
            if 0 <= m < max(n, 1):
                for o in (-1, 0, 1):
                    out.append(m * d + o * binw)
    binw = Fr(full, max(nl, 1)) / (1 << 17)
    for base in (Fr(0), Fr(90), Fr(-90), Fr(180), Fr(-180)):
        for o in (-1000, -1, 0, 1, 1000):
            out.append(base + o * binw)
    out += [Fr(4351, 1000), Fr(-73905, 1000), Fr(13337, 100)]
    res = []
    for x in out:
        x = x % 360
        if x >= 180:
            x -= 360
        res.append(x)
    return list(dict.fromkeys(res))


def wrap180(x):
    x = x % 360
    if x >= 180:
        x -= 360
    return x
