"""Comm-B register format rules restated from ICAO Doc 9871 (status/field consistency, reserved bits,
register number bytes) and the plausibility envelope named in property C12.

For every register R:
  STATUS[R]   list of (status_bit, first_field_bit, last_field_bit) - field bits INCLUDE the sign bit:
              Doc 9871: when the status bit is 0 the whole field, sign included, is zero
  RESERVED[R] list of 1-based MB bits that must be zero
  valid(R)    a list of MB payloads (56-bit ints) that satisfy every rule and lie inside the envelope
Bits are 1-based MB positions, MSB first.
"""
from spec import commb_fields as CF

STATUS = {
    "BDS40": [(1, 2, 13), (14, 15, 26), (27, 28, 39), (48, 49, 51), (54, 55, 56)],
    "BDS50": [(1, 2, 11), (12, 13, 23), (24, 25, 34), (35, 36, 45), (46, 47, 56)],
    "BDS60": [(1, 2, 12), (13, 14, 23), (24, 25, 34), (35, 36, 45), (46, 47, 56)],
    "BDS44": [(5, 6, 23), (35, 36, 46), (47, 48, 49), (50, 51, 56)],
    "BDS45": [(1, 2, 3), (4, 5, 6), (7, 8, 9), (10, 11, 12), (13, 14, 15), (16, 17, 26), (27, 28, 38), (39, 40, 51)],
}
RESERVED = {
    "BDS10": list(range(10, 15)),
    "BDS17": list(range(25, 57)),
    "BDS40": list(range(40, 48)) + [52, 53],
    "BDS45": list(range(52, 57)),
}


def bit(p):
    return 1 << (56 - p)


def field(start, length, value):
    return value << (56 - start - length + 1)


def cs_codes(s):
    inv = {chr(64 + i): i for i in range(1, 27)}
    inv[" "] = 32
    inv.update({chr(i): i for i in range(48, 58)})
    v = 0
    for c in s:
        v = (v << 6) | inv[c]
    return v


def valid(reg):
    """in-envelope, rule-satisfying payloads with per-field boundary values (status on and off)."""
    out = []
    if reg == "BDS10":
        for ovc, ver in ((1, 5), (1, 127), (0, 0), (0, 4)):
            for rest in (0, (1 << 33) - 1):
                out.append(field(1, 8, 0x10) | field(9, 1, 1) | field(15, 1, ovc) | field(16, 1, 1) | field(17, 7, ver) | rest)
    elif reg == "BDS17":
        for caps in (0x020000, 0xFFFFFF, 0x020000 | 0x000100, 0xFE0000, 0x030001):
            out.append(caps << 32)
    elif reg == "BDS20":
        for s in ("KLM1023 ", "        ", "A       ", "ZZZZZZZZ", "99999999", "AB12 CD3"):
            out.append((0x20 << 48) | cs_codes(s))
    elif reg == "BDS30":
        for ara in (0, 0x3FFF):
            for tti in (0, 1, 2):
                for b16 in (0, 47):
                    out.append(field(1, 8, 0x30) | field(9, 7, ara & 0x7F) | field(16, 7, b16) | field(29, 2, tti) | field(31, 26, 0x155555 if tti else 0))
    elif reg == "BDS40":
        for mcp in ((0, 0), (1, 0), (1, 1), (1, 2400), (1, 4095)):
            for fms in ((0, 0), (1, 2375), (1, 4095)):
                for baro in ((0, 0), (1, 0), (1, 2132), (1, 4095)):
                    for mode in ((0, 0), (1, 0), (1, 7)):
                        for src in ((0, 0), (1, 0), (1, 3)):
                            mb = CF.mb_of({"selalt40mcp": (mcp[0], 0, mcp[1]), "selalt40fms": (fms[0], 0, fms[1]),
                                           "p40baro": (baro[0], 0, baro[1])})
                            mb |= field(48, 1, mode[0]) | field(49, 3, mode[1]) | field(54, 1, src[0]) | field(55, 2, src[1])
                            out.append(mb)
    elif reg == "BDS50":
        rolls = [(0, 0, 0), (1, 0, 0), (1, 0, 1), (1, 0, 284), (1, 1, 511), (1, 1, 512 - 284)]
        trks = [(0, 0, 0), (1, 0, 0), (1, 0, 1023), (1, 1, 0), (1, 1, 1023)]
        gss = [(0, 0, 0), (1, 0, 0), (1, 0, 1), (1, 0, 220), (1, 0, 300)]
        rtrks = [(0, 0, 0), (1, 0, 3), (1, 1, 511), (1, 1, 0), (1, 0, 511)]
        tass = [(0, 0, 0), (1, 0, 0), (1, 0, 225), (1, 0, 300)]
        for r in rolls:
            for t in trks:
                for g in gss:
                    for rt in rtrks:
                        for ta in tass:
                            if g[0] and ta[0] and abs(ta[2] * 2 - g[2] * 2) > 200:
                                continue
                            out.append(CF.bds50(r, t, g, rt, ta))
    elif reg == "BDS60":
        hdgs = [(0, 0, 0), (1, 0, 0), (1, 1, 1023), (1, 0, 626)]
        iass = [(0, 0, 0), (1, 0, 0), (1, 0, 1), (1, 0, 250), (1, 0, 500)]
        machs = [(0, 0, 0), (1, 0, 0), (1, 0, 1), (1, 0, 125), (1, 0, 250)]
        vrs = [(0, 0, 0), (1, 0, 0), (1, 0, 187), (1, 1, 512 - 187), (1, 1, 511)]
        for h in hdgs:
            for i in iass:
                for m in machs:
                    for vb in vrs:
                        for vi in vrs[::2]:
                            out.append(CF.bds60(h, i, m, vb, vi))
    elif reg == "BDS44":
        for fom in (0, 1, 4):
            for wind in ((0, 0, 0), (1, 0, 0), (1, 250, 511), (1, 100, 256)):
                for temp in ((0, 0), (0, 240), (1, 1024 - 320), (1, 1023)):     # +0, +60, -80, -0.25 C
                    for p in ((0, 0), (1, 0), (1, 2047)):
                        for tb in ((0, 0), (1, 3)):
                            for hum in ((0, 0), (1, 63)):
                                mb = field(1, 4, fom) | field(5, 1, wind[0]) | field(6, 9, wind[1]) | field(15, 9, wind[2])
                                mb |= field(24, 1, temp[0]) | field(25, 10, temp[1]) | field(35, 1, p[0]) | field(36, 11, p[1])
                                mb |= field(47, 1, tb[0]) | field(48, 2, tb[1]) | field(50, 1, hum[0]) | field(51, 6, hum[1])
                                out.append(mb)
    elif reg == "BDS45":
        for lv in ((0, 0), (1, 0), (1, 3)):
            for temp in ((0, 0, 0), (1, 0, 240), (1, 1, 512 - 320), (1, 1, 511)):
                for p in ((0, 0), (1, 1013), (1, 2047)):
                    for rh in ((0, 0), (1, 0), (1, 4095)):
                        mb = 0
                        for k, sb in enumerate((1, 4, 7, 10, 13)):
                            mb |= field(sb, 1, lv[0]) | field(sb + 1, 2, lv[1])
                        mb |= field(16, 1, temp[0]) | field(17, 1, temp[1]) | field(18, 9, temp[2])
                        mb |= field(27, 1, p[0]) | field(28, 11, p[1]) | field(39, 1, rh[0]) | field(40, 12, rh[1])
                        out.append(mb)
    return [m for m in dict.fromkeys(out) if m != 0]


# envelope breakers named in the property: (register, description, payload just inside, payload just outside)
def envelope_pairs():
    p = []
    p.append(("BDS50", "roll>50deg", CF.bds50(roll=(1, 0, 284)), CF.bds50(roll=(1, 0, 285))))
    p.append(("BDS50", "roll<-50deg", CF.bds50(roll=(1, 1, 512 - 284)), CF.bds50(roll=(1, 1, 512 - 285))))
    p.append(("BDS50", "GS>600kt", CF.bds50(gs=(1, 0, 300), tas=(1, 0, 250)), CF.bds50(gs=(1, 0, 301), tas=(1, 0, 250))))
    p.append(("BDS50", "TAS>600kt", CF.bds50(gs=(1, 0, 250), tas=(1, 0, 300)), CF.bds50(gs=(1, 0, 250), tas=(1, 0, 301))))
    p.append(("BDS50", "|TAS-GS|>200kt", CF.bds50(gs=(1, 0, 100), tas=(1, 0, 200)), CF.bds50(gs=(1, 0, 100), tas=(1, 0, 201))))
    p.append(("BDS50", "|GS-TAS|>200kt", CF.bds50(gs=(1, 0, 200), tas=(1, 0, 100)), CF.bds50(gs=(1, 0, 201), tas=(1, 0, 100))))
    # the two-field relation at its limit for EVERY pair that sits exactly on it (the verdict must not depend on how the
    # difference rounds): |TAS - GS| = 200 kt inside, 202 kt outside, both directions
    for g in range(0, 201):
        p.append(("BDS50", "|TAS-GS|>200kt at GS raw %d" % g, CF.bds50(gs=(1, 0, g), tas=(1, 0, g + 100)), CF.bds50(gs=(1, 0, g), tas=(1, 0, g + 101)) if g + 101 <= 300 else CF.bds50(gs=(1, 0, 100), tas=(1, 0, 201))))
        p.append(("BDS50", "|GS-TAS|>200kt at TAS raw %d" % g, CF.bds50(gs=(1, 0, g + 100), tas=(1, 0, g)), CF.bds50(gs=(1, 0, g + 101), tas=(1, 0, g)) if g + 101 <= 300 else CF.bds50(gs=(1, 0, 201), tas=(1, 0, 100))))
    p.append(("BDS60", "IAS>500kt", CF.bds60(ias=(1, 0, 500), mach=(0, 0, 0)), CF.bds60(ias=(1, 0, 501), mach=(0, 0, 0))))
    p.append(("BDS60", "Mach>1", CF.bds60(ias=(0, 0, 0), mach=(1, 0, 250)), CF.bds60(ias=(0, 0, 0), mach=(1, 0, 251))))
    p.append(("BDS60", "VRbaro>6000", CF.bds60(vrb=(1, 0, 187)), CF.bds60(vrb=(1, 0, 188))))
    p.append(("BDS60", "VRbaro<-6000", CF.bds60(vrb=(1, 1, 512 - 187)), CF.bds60(vrb=(1, 1, 512 - 188))))
    p.append(("BDS60", "VRins>6000", CF.bds60(vri=(1, 0, 187)), CF.bds60(vri=(1, 0, 188))))
    p.append(("BDS60", "VRins<-6000", CF.bds60(vri=(1, 1, 512 - 187)), CF.bds60(vri=(1, 1, 512 - 188))))
    return p


def header_breakers():
    """(register, description, payload) with a wrong register-number byte / reserved pattern."""
    out = []
    v10 = valid("BDS10")[0]
    for b in range(1, 9):
        out.append(("BDS10", "register byte bit %d flipped" % b, v10 ^ bit(b)))
    v20 = valid("BDS20")[0]
    for b in range(1, 9):
        out.append(("BDS20", "register byte bit %d flipped" % b, v20 ^ bit(b)))
    for pos in range(8):
        for code in (0, 27, 31, 33, 47, 58, 63):
            m = v20 & ~field(9 + 6 * pos, 6, 63) | field(9 + 6 * pos, 6, code)
            out.append(("BDS20", "illegal character code %d at position %d" % (code, pos), m))
    v30 = valid("BDS30")[0]
    for b in range(1, 9):
        out.append(("BDS30", "register byte bit %d flipped" % b, v30 ^ bit(b)))
    out.append(("BDS30", "threat type 3", v30 | field(29, 2, 3)))
    out.append(("BDS30", "ACAS III reserved value 48", (v30 & ~field(16, 7, 127)) | field(16, 7, 48)))
    out.append(("BDS17", "BDS 2,0 capability bit clear", 0xFD0000 << 32))
    return out
