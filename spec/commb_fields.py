"""Comm-B register field layouts (ICAO Doc 9871, Tables A-2-16/23/64/68/69/80/83/96).

One row per decoded field:
  name      decoder name (in pyModeS.commb, or pyModeS.bds.bds53)
  status    1-based MB bit of the status flag (None = no status, value always reported)
  sign      1-based MB bit of the sign (None = unsigned)
  msb, lsb  1-based MB bits of the magnitude
  scale     engineering units per count
  offset    added after scaling
  wrap      True if negative angles are reported as value+360
  conf      'high' (layout known from the standard and cross-checked with the repo's vectors) or 'medium'
"""
from fractions import Fraction as Fr


class Row:
    def __init__(self, reg, name, status, sign, msb, lsb, scale, offset=0, wrap=False, conf="high", mod="commb"):
        self.reg, self.name, self.status, self.sign, self.msb, self.lsb = reg, name, status, sign, msb, lsb
        self.scale, self.offset, self.wrap, self.conf, self.mod = scale, offset, wrap, conf, mod
        self.nbits = lsb - msb + 1

    def expected(self, status, sign, raw):
        """engineering value the decoder must return (None if status bit clear)."""
        if self.status is not None and not status:
            return None
        v = raw
        if self.sign is not None and sign:
            v = raw - (1 << self.nbits)
        val = float(Fr(self.scale) * v + Fr(self.offset))
        if self.wrap and val < 0:
            val += 360.0
        return val

    def place(self, status, sign, raw):
        """56-bit MB with only this field's bits set."""
        mb = raw << (56 - self.lsb)
        if self.status is not None and status:
            mb |= 1 << (56 - self.status)
        if self.sign is not None and sign:
            mb |= 1 << (56 - self.sign)
        return mb

    def bits(self):
        b = set(range(self.msb, self.lsb + 1))
        if self.status is not None:
            b.add(self.status)
        if self.sign is not None:
            b.add(self.sign)
        return b


ROWS = [
    # BDS 4,0 selected vertical intention
    Row("40", "selalt40mcp", 1, None, 2, 13, 16),
    Row("40", "selalt40fms", 14, None, 15, 26, 16),
    Row("40", "p40baro", 27, None, 28, 39, Fr(1, 10), 800),
    # deprecated aliases still exported by pyModeS.commb
    Row("40", "alt40mcp", 1, None, 2, 13, 16),
    Row("40", "alt40fms", 14, None, 15, 26, 16),
    # BDS 5,0 track and turn report
    Row("50", "roll50", 1, 2, 3, 11, Fr(45, 256)),
    Row("50", "trk50", 12, 13, 14, 23, Fr(90, 512), wrap=True),
    Row("50", "gs50", 24, None, 25, 34, 2),
    Row("50", "rtrk50", 35, 36, 37, 45, Fr(8, 256)),
    Row("50", "tas50", 46, None, 47, 56, 2),
    # BDS 6,0 heading and speed report
    Row("60", "hdg60", 1, 2, 3, 12, Fr(90, 512), wrap=True),
    Row("60", "ias60", 13, None, 14, 23, 1),
    Row("60", "mach60", 24, None, 25, 34, Fr(2048, 512000)),
    Row("60", "vr60baro", 35, 36, 37, 45, 32),
    Row("60", "vr60ins", 46, 47, 48, 56, 32),
    # BDS 4,4 meteorological routine air report
    Row("44", "p44", 35, None, 36, 46, 1, conf="medium"),
    Row("44", "hum44", 50, None, 51, 56, Fr(100, 64), conf="medium"),
    Row("44", "turb44", 47, None, 48, 49, 1, conf="medium"),
    # BDS 4,5 meteorological hazard report
    Row("45", "turb45", 1, None, 2, 3, 1, conf="medium"),
    Row("45", "ws45", 4, None, 5, 6, 1, conf="medium"),
    Row("45", "mb45", 7, None, 8, 9, 1, conf="medium"),
    Row("45", "ic45", 10, None, 11, 12, 1, conf="medium"),
    Row("45", "wv45", 13, None, 14, 15, 1, conf="medium"),
    Row("45", "temp45", None, 17, 18, 26, Fr(1, 4), conf="medium"),
    Row("45", "p45", 27, None, 28, 38, 1, conf="medium"),
    Row("45", "rh45", 39, None, 40, 51, 16, conf="medium"),
    # BDS 5,3 air-referenced state vector
    Row("53", "hdg53", 1, 2, 3, 12, Fr(90, 512), wrap=True, conf="medium", mod="bds53"),
    Row("53", "ias53", 13, None, 14, 23, 1, conf="medium", mod="bds53"),
    Row("53", "mach53", 24, None, 25, 33, Fr(8, 1000), conf="medium", mod="bds53"),
    Row("53", "tas53", 34, None, 35, 46, Fr(1, 2), conf="medium", mod="bds53"),
    Row("53", "vr53", 47, 48, 49, 56, 64, conf="medium", mod="bds53"),
]
BY_NAME = {r.name: r for r in ROWS}

CAP17 = ["05", "06", "07", "08", "09", "0A", "20", "21", "40", "41", "42", "43", "44", "45", "48", "50", "51", "52",
         "53", "54", "55", "56", "5F", "60"]


def mb_of(values):
    """values: {field name: (status, sign, raw)} -> 56-bit MB."""
    mb = 0
    for name, (st, sg, raw) in values.items():
        mb |= BY_NAME[name].place(st, sg, raw)
    return mb


def bds50(roll=(1, 0, 11), trk=(1, 0, 683), gs=(1, 0, 220), rtrk=(1, 0, 3), tas=(1, 0, 225)):
    return mb_of({"roll50": roll, "trk50": trk, "gs50": gs, "rtrk50": rtrk, "tas50": tas})


def bds60(hdg=(1, 0, 626), ias=(1, 0, 250), mach=(1, 0, 190), vrb=(1, 1, 496), vri=(1, 1, 497)):
    return mb_of({"hdg60": hdg, "ias60": ias, "mach60": mach, "vr60baro": vrb, "vr60ins": vri})


def bds40(mcp=(1, 0, 2400), fms=(1, 0, 2375), baro=(1, 0, 2132), mode=0, src=0):
    return mb_of({"selalt40mcp": mcp, "selalt40fms": fms, "p40baro": baro}) | (mode << 5) | src
