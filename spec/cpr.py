"""Compact Position Reporting reference (DO-260B Appendix A.1.7), encoding direction.

Everything is computed on exact rationals (fractions) from integer bin indices, so the
reference has no floating-point boundary effects of its own; only NL() uses floats, with
transition latitudes from the closed form, and reports when a latitude is within 1e-9 deg
of a transition (where the property allows either neighbour).
"""
import bisect
import math
from fractions import Fraction as Fr

NZ = 15
TRANS = {}  # NL -> latitude (deg) below which NL() >= NL ; NL = 2..59
for _nl in range(2, 60):
    TRANS[_nl] = math.degrees(math.acos(math.sqrt((1 - math.cos(math.pi / (2 * NZ))) / (1 - math.cos(2 * math.pi / _nl)))))
TRANS[2] = 87.0  # exact by definition
TRANS_SORTED = sorted(TRANS.values())
EPS = 1.0000001e-9


def NL(lat):
    """Reference NL: 59 at the equator ... 2 up to and including 87, 1 beyond."""
    a = abs(float(lat))
    if a > 87.0:
        return 1
    if a == 87.0:
        return 2
    return 59 - bisect.bisect_right(TRANS_SORTED, a)


def NL_set(lat):
    """set of admissible NL values: both neighbours within 1e-9 deg of a transition."""
    a = abs(float(lat))
    s = {NL(a)}
    for nl, t in TRANS.items():
        if abs(a - t) <= EPS:
            s.add(nl)
            s.add(nl - 1)
    return s


def near_transition(lat, margin_deg):
    a = abs(float(lat))
    return any(abs(a - t) <= margin_deg for t in TRANS_SORTED)


def dlat(i, surface=False):
    return Fr(90 if surface else 360, 4 * NZ - i)


def encode(lat, lon, i, surface=False):
    """lat, lon: Fractions (or ints). Returns dict with yz, xz (17-bit), rlat, rlon (Fractions,
    the position 'carried by the frame'), dlon, nl."""
    lat = Fr(lat)
    lon = Fr(lon)
    nb = 19 if surface else 17
    d = Fr(360, 4 * NZ - i)
    zone = math.floor(lat / d)
    yz = math.floor((1 << nb) * (lat - zone * d) / d + Fr(1, 2))
    rlat = d * (Fr(yz, 1 << nb) + zone)
    nl = NL(rlat)
    ni = nl - i
    dl = Fr(360, ni) if ni > 0 else Fr(360)
    zl = math.floor(lon / dl)
    xz = math.floor((1 << nb) * (lon - zl * dl) / dl + Fr(1, 2))
    rlon = dl * (Fr(xz, 1 << nb) + zl)
    return {"yz": yz % (1 << 17), "xz": xz % (1 << 17), "rlat": rlat, "rlon": rlon,
            "dlat": d / (4 if surface else 1), "dlon": dl / (4 if surface else 1), "nl": nl, "i": i}


def me_airborne(tc, alt12, i, yz, xz, ss=0, saf=0, t=0):
    """56-bit ME of an airborne position message."""
    return (tc << 51) | (ss << 49) | (saf << 48) | (alt12 << 36) | (t << 35) | (i << 34) | (yz << 17) | xz


def me_surface(tc, mov, s, trk, i, yz, xz, t=0):
    return (tc << 51) | (mov << 44) | (s << 43) | (trk << 36) | (t << 35) | (i << 34) | (yz << 17) | xz


def lon_diff(a, b):
    """absolute difference modulo 360."""
    d = (float(a) - float(b)) % 360.0
    return min(d, 360.0 - d)


def offset_nm(lat, lon, north_nm, east_nm):
    """Fractions: position displaced by (north, east) nautical miles (1 NM = 1/60 deg of latitude)."""
    lat2 = Fr(lat) + Fr(north_nm) / 60
    c = math.cos(math.radians(float(lat)))
    if abs(c) < 1e-6:
        return lat2, Fr(lon)
    lon2 = Fr(lon) + Fr(east_nm) / 60 / Fr(c).limit_denominator(10 ** 9)
    return lat2, lon2
