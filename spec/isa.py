"""International Standard Atmosphere from first principles (ISO 2533), 0-20 km."""
import math

g0, R, T0, p0, beta, H11 = 9.80665, 287.05287, 288.15, 101325.0, -0.0065, 11000.0
T11 = T0 + beta * H11
p11 = p0 * (T11 / T0) ** (-g0 / (beta * R))


def atmos(H):
    if H <= H11:
        T = T0 + beta * H
        p = p0 * (T / T0) ** (-g0 / (beta * R))
    else:
        T = T11
        p = p11 * math.exp(-g0 * (H - H11) / (R * T11))
    return p, p / (R * T), T


def haversine(lat1, lon1, lat2, lon2, r=6371000.0):
    a1, a2 = math.radians(lat1), math.radians(lat2)
    dphi, dl = a2 - a1, math.radians(lon2 - lon1)
    h = math.sin(dphi / 2) ** 2 + math.cos(a1) * math.cos(a2) * math.sin(dl / 2) ** 2
    return 2 * r * math.asin(min(1.0, math.sqrt(h)))


KTS, FT = 0.514444, 0.3048
rho0 = p0 / (R * T0)


def mach2tas(mach, H):
    return mach * math.sqrt(1.4 * R * atmos(H)[2])


def tas2cas(v, H):
    p, rho, T = atmos(H)
    qc = p * ((1 + rho * v * v / (7 * p)) ** 3.5 - 1)
    return math.sqrt(7 * p0 / rho0 * ((qc / p0 + 1) ** (2 / 7.0) - 1))


def cas2tas(v, H):
    p, rho, T = atmos(H)
    qc = p0 * ((1 + rho0 * v * v / (7 * p0)) ** 3.5 - 1)
    return math.sqrt(7 * p / rho * ((1 + qc / p) ** (2 / 7.0) - 1))


def mach2cas(mach, H):
    return tas2cas(mach2tas(mach, H), H)
