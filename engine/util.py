"""Small helpers shared by the checks."""
import math


def call(f, *a, **k):
    """('ok', value) or ('exc', ExceptionTypeName)."""
    try:
        return ("ok", f(*a, **k))
    except Exception as e:  # noqa: BLE001 - the type is the observation
        return ("exc", type(e).__name__)


def feq(a, b, rel=1e-12, abs_=1e-12):
    if a is None or b is None:
        return a is b
    try:
        return math.isclose(a, b, rel_tol=rel, abs_tol=abs_)
    except TypeError:
        return a == b


def chunks(seq, n):
    seq = list(seq)
    return [seq[i:i + n] for i in range(0, len(seq), n)]


def other_bits(total, exclude):
    """bit masks (as ints) of every single bit of a total-bit word outside the 1-based positions in exclude."""
    ex = set(exclude)
    return [1 << (total - p) for p in range(1, total + 1) if p not in ex]


def explore_sequences(acc, thunks, depth, tag):
    """Exhaustive call-sequence exploration in one process: every sequence (with repetitions) of <= depth calls over the
    given thunks; each thunk is (label, fn) with fn() -> None | signature and carries an ABSOLUTE oracle, so any state that
    survives a call and changes a later answer is exposed.  Sequences are concatenated (no reset in between): a failure
    replays as the whole task in a fresh process."""
    import itertools
    n = len(thunks)
    for L in range(1, depth + 1):
        for seq in itertools.product(range(n), repeat=L):
            for k, i in enumerate(seq):
                acc.n += 1
                s = thunks[i][1]()
                if s:
                    acc.bad(s + ":in_a_call_sequence", {"kind": "seqx", "tag": tag, "sequence": [thunks[j][0] for j in seq[:k + 1]]})
                    break
    acc.out.add(("seqx", tag))


def replay_sequence(thunks, labels):
    by = dict(thunks)
    for lb in labels:
        s = by[lb]()
        if s:
            return s + ":in_a_call_sequence"
    return None


def scribble(obj):
    """overwrite every mutable container reachable from a returned value (what a caller is free to do with its result)."""
    import numpy as np
    if isinstance(obj, list):
        for x in obj:
            scribble(x)
        obj.clear()
    elif isinstance(obj, dict):
        for x in list(obj.values()):
            scribble(x)
        obj.clear()
    elif isinstance(obj, (set, bytearray)):
        obj.clear()
    elif isinstance(obj, np.ndarray):
        try:
            obj *= 0
        except Exception:
            pass
    elif isinstance(obj, tuple):
        for x in obj:
            scribble(x)


def vary_case(msg, k):
    """hex strings may be given in either letter case: upper, lower or mixed, rotating with k."""
    if msg is None:
        return None
    r = k % 3
    if r == 0:
        return msg
    if r == 1:
        return msg.lower()
    return "".join(c.lower() if i % 2 else c for i, c in enumerate(msg))


# ---------------------------------------------------------------- timestamp representations (C03, C05)
# The pair decoders are documented for `int | datetime` timestamps and only ever compare them.  A pair of timestamps
# is produced in one of these representations; JSON-safe forms (numbers, or {"dt": iso}) are decoded by ts_dec().
TS_KINDS = ["int", "zero", "subsecond_float", "epoch_float", "datetime_same_second", "datetime_minute_boundary",
            "negative", "huge_gap"]


def ts_pair(kind, first_newer):
    """(t_first, t_second) in JSON-safe form, the first strictly newer iff first_newer."""
    k = TS_KINDS[kind % len(TS_KINDS)]
    if k == "int":
        new, old = 10, 9
    elif k == "zero":
        new, old = 1, 0
    elif k == "subsecond_float":
        new, old = 100.75, 100.25
    elif k == "epoch_float":
        new, old = 1700000000.625, 1700000000.125
    elif k == "datetime_same_second":
        new, old = {"dt": "2024-03-09T12:00:07.750000"}, {"dt": "2024-03-09T12:00:07.250000"}
    elif k == "datetime_minute_boundary":
        new, old = {"dt": "2024-03-09T12:01:00.100000"}, {"dt": "2024-03-09T12:00:59.900000"}
    elif k == "negative":
        new, old = -1, -2
    else:
        new, old = 5000000, 3
    return (new, old) if first_newer else (old, new)


def ts_dec(t):
    if isinstance(t, dict) and "dt" in t:
        import datetime
        return datetime.datetime.fromisoformat(t["dt"])
    return t


def ca_for(df, k):
    """capability (DF17: any of 0..7) / control field (DF18: 5 as before, 0, 1 = ADS-B from non-transponder devices,
    6 = ADS-R: the codes whose ME field has the DF17 layout) rotating with k."""
    return k % 8 if df == 17 else (5, 0, 1, 6)[k % 4]


def kw_call(f, *args):
    """the same call with every argument passed by the name the function itself advertises (inspect.signature):
    ('ok', value) / ('exc', type) / None when the signature cannot be read or has no named parameters to bind."""
    import inspect
    try:
        ps = [p_ for p_ in inspect.signature(f).parameters.values()
              if p_.kind in (p_.POSITIONAL_OR_KEYWORD, p_.KEYWORD_ONLY)]
    except (TypeError, ValueError):
        return None
    if len(ps) < len(args):
        return None
    return call(f, **{p_.name: a for p_, a in zip(ps, args)})


def np_str(msg):
    """the frame as numpy.str_ - what iterating over a numpy array of hex strings yields (a str subclass)."""
    import numpy as np
    return np.str_(msg)


def source_words(rel_paths=None):
    """literals that occur in the source of the tree under test (a fuzzer's dictionary, used exhaustively): returns a dict
    with 'ints' (set of int constants), 'strs' (set of str constants), 'floats'.  Code that treats one particular
    address, call sign, field value or angle specially has to write that value down; values that appear nowhere in the
    source cannot be special.  rel_paths are relative to <repo>/src/pyModeS (default: every .py and .pyx file)."""
    import ast
    import os
    import re
    from engine import loader
    root = os.path.join(loader.SRC, "pyModeS")
    files = []
    if rel_paths is None:
        for d, _, fs in os.walk(root):
            files += [os.path.join(d, f) for f in fs if f.endswith((".py", ".pyx"))]
    else:
        files = [os.path.join(root, r) for r in rel_paths]
    ints, strs, floats = set(), set(), set()
    for fn in sorted(files):
        try:
            txt = open(fn).read()
        except OSError:
            continue
        if fn.endswith(".pyx"):
            for m in re.finditer(r"0[xX][0-9a-fA-F]+|\b\d+\.\d+\b|\b\d+\b", txt):
                t = m.group(0)
                try:
                    (floats if "." in t else ints).add(float(t) if "." in t else (int(t, 16) if t[:2].lower() == "0x" else int(t, 10)))
                except ValueError:
                    pass
            for m in re.finditer(r"'([^'\n]{1,12})'|\"([^\"\n]{1,12})\"", txt):
                strs.add(m.group(1) or m.group(2))
            continue
        try:
            tree = ast.parse(txt)
        except SyntaxError:
            continue
        for node in ast.walk(tree):
            if isinstance(node, ast.Constant):
                v = node.value
                if isinstance(v, bool) or v is None:
                    continue
                if isinstance(v, int):
                    ints.add(v)
                elif isinstance(v, float):
                    floats.add(v)
                elif isinstance(v, str) and 1 <= len(v) <= 12:
                    strs.add(v)
    return {"ints": ints, "strs": strs, "floats": floats}


def address_alphabet(limit=160):
    """24-bit addresses worth trying wherever an address should not matter (or must be recovered): corners, walking bits,
    every address-sized integer / 6-hex-digit string the source writes down, its neighbours +-1, and the midpoints between
    consecutive such constants (the interior of every range the source delimits, e.g. unallocated address blocks)."""
    import re
    a = [0, 1, 0xFFFFFF, 0xFFFFFE, 0x800000, 0x7FFFFF, 0x4840D6, 0xABCDEF, 0x406B90] + [1 << i for i in range(0, 24, 3)]
    w = source_words()
    lit = sorted({int(x, 16) for x in w["strs"] if re.fullmatch(r"[0-9A-Fa-f]{6}", x)} | {x for x in w["ints"] if 0xFFFF < x < (1 << 24)})
    for c in lit:
        a += [c, (c + 1) & 0xFFFFFF, (c - 1) & 0xFFFFFF]
    for c1, c2 in zip(lit, lit[1:]):
        a.append((c1 + c2) // 2)
    return list(dict.fromkeys(a))[:limit]


def interleaved_ok(f, arg_tuples, fb_list=(), bound=1):
    """engine.interleave over all ordered pairs of the given argument tuples (and, as the interrupting call, each (fb, args)
    of fb_list): returns a list of (args_a, name_b, k) for schedules in which either call's answer differs from the answer
    it gives alone; plus the number of schedules executed."""
    from engine import interleave, loader
    iso = [repr(call(f, *a)) for a in arg_tuples]
    bad, n = [], 0
    for i, a in enumerate(arg_tuples):
        inter = [(f, b, iso[j], getattr(f, "__name__", "f")) for j, b in enumerate(arg_tuples) if j != i]
        inter += [(fb, b, repr(call(fb, *b)), getattr(fb, "__name__", "g")) for fb, b in fb_list]
        for fb, b, iso_b, nm in inter:
            res = interleave.explore(f, a, fb, b, loader.SRC, bound=bound)
            n += len(res["schedules"])
            for k, ra, rb in res["schedules"]:
                if repr(ra) != iso[i] or (repr(rb) != iso_b if bound == 1 else any(repr(x) != iso_b for x in rb)):
                    bad.append((a, nm, k))
                    break
    return bad, n


AMBIENT_FRAMES = [
    "8D40621D58C382D690C8AC2863A7", "8D40621D58C386435CC412692AD6",      # airborne position, even / odd
    "8C4841753AAB238733C8CD4020B1", "8C4841753A8A35323FAEBDAC702D",      # surface position
    "8D485020994409940838175B284F", "8DA05F219B06B6AF189400CBC33F",      # velocity sub-types 1 and 3
    "8D4840D6202CC371C32CE0576098",                                      # identification
    "8D40058B58C901375147EFD09357",                                      # another airborne position
    "8DA2C1BD587BA2ADB31799CB802B",
    "A000083E202CC371C31DE0AA1CCF", "A0001838201584F23468207CDFA5",      # Comm-B 2,0
    "A0001839CA3800315800007448D9", "A000029C85E42F313000007047D3",      # Comm-B 4,0 / 5,0
    "A00004128F39F91A7E27C46ADC21", "A8001EBCFFFB23286004A73F6A5B",      # Comm-B 6,0 / 4,0
    "A0001838300000000000007ADA4A",
    "28001A1B1B2C4F", "2A00516D492B80", "5D484FDEA248F5", "02E197B00179C3",
]


def ambient(pms):
    """a fixed 'earlier life' of the process: every public callable of the decoder modules is called on a small set of
    frames (each with the argument shape its signature asks for); results and exceptions are ignored.  A check that has
    an absolute oracle repeats its alphabet after this, so an answer that is only right in a process that never called
    a DIFFERENT decoder before (shared module-level tables mutated by another function, lazily built caches) is seen."""
    import inspect
    mods = []
    for name in ("adsb", "commb", "common", "allcall", "surv", "bds"):
        m = getattr(pms, name, None) or getattr(getattr(pms, "decoder", None), name, None)
        if m is not None:
            mods.append(m)
    bds = getattr(getattr(pms, "decoder", None), "bds", None)
    if bds is not None:
        for n in sorted(dir(bds)):
            sub = getattr(bds, n)
            if inspect.ismodule(sub) and getattr(sub, "__name__", "").startswith(bds.__name__ + "."):
                mods.append(sub)
    n = 0
    seen = set()
    for m in mods:
        for fname in sorted(dir(m)):
            f = getattr(m, fname)
            if fname.startswith("_") or not inspect.isfunction(f) and not inspect.isbuiltin(f) or id(f) in seen:
                continue
            seen.add(id(f))
            try:
                params = [p for p in inspect.signature(f).parameters.values()
                          if p.kind in (p.POSITIONAL_ONLY, p.POSITIONAL_OR_KEYWORD)]
            except (TypeError, ValueError):
                continue
            names = [p.name for p in params]
            if not names or not names[0].startswith("msg"):
                continue
            for i, fr in enumerate(AMBIENT_FRAMES):
                other = AMBIENT_FRAMES[i ^ 1]
                args = []
                for nm in names:
                    if nm in ("msg", "msg0"):
                        args.append(fr)
                    elif nm == "msg1":
                        args.append(other)
                    elif nm in ("t0", "t1"):
                        args.append(1000 + (nm == "t1"))
                    elif "lat" in nm:
                        args.append(52.3)
                    elif "lon" in nm:
                        args.append(4.7)
                    else:
                        break
                else:
                    try:
                        f(*args)
                    except Exception:  # noqa: BLE001
                        pass
                    n += 1
                    continue
                # remaining parameters have defaults? call with what we have
                try:
                    f(*args)
                except Exception:  # noqa: BLE001
                    pass
                n += 1
    return n
