"""Small helpers shared by the checks."""
import math


def call(f, *a, **k):
    """('ok', value) or ('exc', ExceptionTypeName)."""
    try:
        return ("ok", f(*a, **k))
    except Exception as e:  # noqa: BLE001 - the type is the observation
        return ("exc", type(e).__name__)


def feq(a, b, rel=1e-12, abs_=1e-12):
    if a is None or b is None:
        return a is b
    try:
        return math.isclose(a, b, rel_tol=rel, abs_tol=abs_)
    except TypeError:
        return a == b


def chunks(seq, n):
    seq = list(seq)
    return [seq[i:i + n] for i in range(0, len(seq), n)]


def other_bits(total, exclude):
    """bit masks (as ints) of every single bit of a total-bit word outside the 1-based positions in exclude."""
    ex = set(exclude)
    return [1 << (total - p) for p in range(1, total + 1) if p not in ex]
