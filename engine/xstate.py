"""Explicit-state explorer over real objects.

A state is whatever the caller's `successors` function returns; the explorer only needs
  key(state)          -> hashable canonical form (deduplication)
  successors(state)   -> iterable of (label, next_state)   (each edge = one call of the real code)
  invariant(state)    -> None, or a (signature, info) pair describing the violation
Breadth-first, so the first trace to any violating state is a shortest one.
"""
import collections


class Result:
    def __init__(self):
        self.states = 0
        self.transitions = 0
        self.max_depth = 0
        self.violations = []   # (signature, trace(list of labels), info)
        self.capped = False


def bfs(init, key, successors, invariant, max_states=None, max_depth=None, stop_at_first_per_sig=True):
    res = Result()
    seen = {key(init)}
    frontier = collections.deque([(init, ())])
    res.states = 1
    seen_sigs = set()
    v = invariant(init)
    if v:
        res.violations.append((v[0], [], v[1]))
        seen_sigs.add(v[0])
    while frontier:
        st, trace = frontier.popleft()
        if max_depth is not None and len(trace) >= max_depth:
            continue
        for label, nxt in successors(st):
            res.transitions += 1
            tr = trace + (label,)
            v = invariant(nxt)
            if v:
                if not (stop_at_first_per_sig and v[0] in seen_sigs):
                    res.violations.append((v[0], list(tr), v[1]))
                    seen_sigs.add(v[0])
                continue            # do not expand violating states
            k = key(nxt)
            if k in seen:
                continue
            seen.add(k)
            res.states += 1
            if len(tr) > res.max_depth:
                res.max_depth = len(tr)
            if max_states is not None and res.states >= max_states:
                res.capped = True
                return res
            frontier.append((nxt, tr))
    return res


def dfs(init, key, successors, invariant, depth, res=None, seen=None, trace=()):
    """Depth-bounded depth-first exploration (memory-light; one live object per level).

    `seen` maps key -> largest remaining depth already explored from that state, so a state reached again with
    no more remaining depth than before is not re-expanded (sound for a depth bound: its subtree was covered)."""
    if res is None:
        res = Result()
        res.states = 1
    if seen is None:
        seen = {key(init): depth}
    if depth == 0:
        return res
    for label, nxt in successors(init):
        res.transitions += 1
        tr = trace + (label,)
        v = invariant(nxt)
        if v:
            if len(res.violations) < 50:
                res.violations.append((v[0], list(tr), v[1]))
            continue
        k = key(nxt)
        rem = depth - 1
        old = seen.get(k)
        if old is not None and old >= rem:
            continue
        if old is None:
            res.states += 1
        seen[k] = rem
        if len(tr) > res.max_depth:
            res.max_depth = len(tr)
        dfs(nxt, key, successors, invariant, rem, res, seen, tr)
    return res
