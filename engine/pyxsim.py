"""pyxsim - executable Python model of pyModeS/c_common.pyx with C integer semantics.

Cython is not installed in this image, so the .pyx cannot be compiled from the working tree.
This translator turns the (small, fixed) Cython subset the file uses into Python source that keeps
the places where Cython differs from Python:

  * typed locals / arguments / return values are coerced on every assignment:
      unsigned char -> mod 2^8, char -> 8-bit two's complement (1-char str -> code point),
      int -> 32-bit, long / Py_ssize_t -> 64-bit two's complement, double -> float, bint -> bool
  * typed memoryviews over bytearray / array become views that coerce on store
  * C arrays (cdef long[4] G = _G) become coerced lists
  * <T> casts become the same coercions;  libc.math names map to math
  * cdef-only functions and cdef module variables are NOT exported (as in a compiled extension)
  * decorators (@cython.boundscheck ...) are dropped

A construct outside the subset raises PyxTranslateError (loudly), never a silent guess.
build(path) returns a module object named 'pyModeS.c_common'.
"""
import ast
import re
import types

INT_TYPES = {
    "unsigned char": (8, False), "char": (8, True), "int": (32, True), "long": (64, True),
    "Py_ssize_t": (64, True), "unsigned int": (32, False), "unsigned long": (64, False),
    "short": (16, True), "unsigned short": (16, False), "long long": (64, True), "unsigned long long": (64, False),
    "size_t": (64, False), "ssize_t": (64, True), "Py_UCS4": (32, False), "unsigned": (32, False),
    "int8_t": (8, True), "uint8_t": (8, False), "int16_t": (16, True), "uint16_t": (16, False),
    "int32_t": (32, True), "uint32_t": (32, False), "int64_t": (64, True), "uint64_t": (64, False),
}
FLOAT_TYPES = {"double", "float", "long double"}
NUM_EXTRA = FLOAT_TYPES | {"bint"}
OBJ_TYPES = {"str", "bytearray", "bytes", "array.array", "object", "list"}
OBJ_TYPES |= {"dict", "tuple", "set", "bytes", "unicode"}


def all_types():
    return sorted(list(INT_TYPES) + sorted(FLOAT_TYPES) + ["bint"] + sorted(OBJ_TYPES), key=len, reverse=True)


class PyxTranslateError(Exception):
    pass


def co(t, v):
    """coerce value v to C type t."""
    if t in INT_TYPES:
        bits, signed = INT_TYPES[t]
        if isinstance(v, str):
            if len(v) != 1:
                raise TypeError("only single character unicode strings can be converted to Py_UCS4")
            v = ord(v)
        elif isinstance(v, float):
            v = int(v)          # C conversion double -> integer truncates toward zero
        elif isinstance(v, bool):
            v = int(v)
        elif not isinstance(v, int):
            v = int(v.__index__())
        v &= (1 << bits) - 1
        if signed and v >> (bits - 1):
            v -= 1 << bits
        return v
    if t == "double" or t == "long double":
        return float(v)
    if t == "float":
        import struct
        return struct.unpack("f", struct.pack("f", float(v)))[0]
    if t == "bint":
        return bool(v)
    if t == "str":
        if v is not None and not isinstance(v, str):
            raise TypeError("Argument has incorrect type (expected str, got %s)" % type(v).__name__)
        return v
    return v


def dflt(t):
    if t in INT_TYPES:
        return 0
    if t in FLOAT_TYPES:
        return 0.0
    if t == "bint":
        return False
    return None


class MV:
    """typed memoryview over a mutable buffer; stores coerce to the element type."""

    def __init__(self, t, buf):
        self.t, self.buf = t, buf

    def __getitem__(self, i):
        return self.buf[i]

    def __setitem__(self, i, v):
        self.buf[i] = co(self.t, v)

    def __len__(self):
        return len(self.buf)

    def __iter__(self):
        return iter(self.buf)


def carr(t, n, src):
    """C array: a fixed-length buffer whose stores coerce to the element type."""
    out = [co(t, x) for x in src] if src is not None else [dflt(t)] * n
    if len(out) != n:
        raise ValueError("C array length mismatch")
    return MV(t, out)


def sig(ret, argtypes):
    def deco(f):
        def wrapper(*a, **k):
            a = list(a)
            for i, (name, t) in enumerate(argtypes):
                if i < len(a):
                    if t:
                        a[i] = co(t, a[i])
                elif name in k and t:
                    k[name] = co(t, k[name])
            r = f(*a, **k)
            return co(ret, r) if ret else r
        wrapper.__name__ = f.__name__
        wrapper.__doc__ = f.__doc__
        wrapper.__wrapped__ = f
        return wrapper
    return deco


# --------------------------------------------------------------------------- line level
def logical_lines(src):
    out, buf, depth = [], "", 0
    for raw in src.split("\n"):
        line = raw
        code = re.sub(r"#.*$", "", line) if not re.search(r"['\"].*#.*['\"]", line) else line
        buf = (buf + " " + line.strip()) if buf else line
        depth += sum(code.count(c) for c in "([{") - sum(code.count(c) for c in ")]}")
        if depth <= 0 and not code.rstrip().endswith("\\"):
            out.append(buf)
            buf, depth = "", 0
    if buf:
        out.append(buf)
    return out


def split_type(decl):
    """'unsigned char[:] binstr' -> ('unsigned char', '[:]', 'binstr');  'hexbytes' -> (None, '', 'hexbytes')."""
    decl = decl.strip()
    decl = re.sub(r"^(const|volatile)\s+", "", decl)
    for t in all_types():
        if decl.startswith(t) and (len(decl) == len(t) or decl[len(t)] in " ["):
            rest = decl[len(t):].strip()
            m = re.match(r"^(\[[^\]]*\])?\s*(\w+)$", rest)
            if not m:
                raise PyxTranslateError("cannot parse declaration: %r" % decl)
            return t, m.group(1) or "", m.group(2)
    if re.match(r"^\w+$", decl):
        return None, "", decl
    raise PyxTranslateError("unknown type in declaration: %r" % decl)


def cast_re():
    names = sorted(list(INT_TYPES) + sorted(FLOAT_TYPES) + ["bint"], key=len, reverse=True)
    return re.compile(r"<\s*(%s)\s*>\s*" % "|".join(re.escape(n) for n in names))


def _primary_end(text, i):
    """index just after the primary expression starting at text[i] (identifier/number with call/index/attribute
    trailers, or a parenthesised expression, optionally preceded by a unary minus)."""
    n = len(text)
    if i < n and text[i] in "+-":
        i += 1
    if i < n and text[i] == "(":
        depth = 0
        while i < n:
            if text[i] in "([{":
                depth += 1
            elif text[i] in ")]}":
                depth -= 1
                if depth == 0:
                    i += 1
                    break
            i += 1
    else:
        j = i
        while j < n and (text[j].isalnum() or text[j] in "_."):
            j += 1
        if j == i:
            raise PyxTranslateError("cannot find the operand of a cast in %r" % text)
        i = j
    while i < n and text[i] in "([":
        depth = 0
        while i < n:
            if text[i] in "([{":
                depth += 1
            elif text[i] in ")]}":
                depth -= 1
                if depth == 0:
                    i += 1
                    break
            i += 1
    return i


def rewrite_casts(line):
    """<T> primary  ->  _co('T', primary)   (a C cast binds tighter than any binary operator)."""
    for _ in range(20):
        m = None
        for m_ in cast_re().finditer(line):
            m = m_                      # innermost-last first
        if m is None:
            break
        end = _primary_end(line, m.end())
        line = line[:m.start()] + "_co(%r, %s)" % (m.group(1), line[m.end():end]) + line[end:]
    if re.search(r"<\s*(unsigned|char|int|long|double|float|short)\b[^<>=]*>\s*[\w(]", line) and "_co(" not in line:
        raise PyxTranslateError("unhandled cast: %r" % line)
    return line


def expand_blocks(lines, hidden):
    """pre-pass: `cdef:` declaration blocks become one `cdef ...` line per member; `cdef enum [Name]:` blocks (and the
    one-line form) become plain integer constants (not exported); `DEF N = v` becomes a constant; `ctypedef <known
    type> alias` registers the alias; function headers lose `inline`, `nogil`, `noexcept`, `except ...`."""
    out, i = [], 0
    while i < len(lines):
        line = lines[i]
        stripped = line.strip()
        indent = line[:len(line) - len(line.lstrip())]
        m = re.match(r"^(cdef|cpdef)\s+enum\b\s*(\w+)?\s*:\s*(.*)$", stripped)
        if m or re.match(r"^cdef\s*:\s*$", stripped):
            members = []
            if m and m.group(3).strip():
                members.append(m.group(3).strip())
            i += 1
            while i < len(lines) and (not lines[i].strip() or len(lines[i]) - len(lines[i].lstrip()) > len(indent)):
                if lines[i].strip() and not lines[i].strip().startswith("#"):
                    members.append(re.sub(r"\s+#.*$", "", lines[i].strip()))
                i += 1
            if m:
                prev = None
                for item in [x.strip() for mem in members for x in mem.split(",") if x.strip()]:
                    if item == "pass":
                        continue
                    name, _, val = item.partition("=")
                    name = name.strip()
                    if not re.match(r"^\w+$", name):
                        raise PyxTranslateError("cannot parse enum member %r" % item)
                    if val.strip():
                        out.append("%s%s = _co('int', %s)" % (indent, name, val.strip()))
                    else:
                        out.append("%s%s = %s" % (indent, name, "0" if prev is None else "%s + 1" % prev))
                    prev = name
                    hidden.append(name)
            else:
                for mem in members:
                    out.append("%scdef %s" % (indent, mem))
            continue
        m = re.match(r"^DEF\s+(\w+)\s*=\s*(.+)$", stripped)
        if m:
            out.append("%s%s = %s" % (indent, m.group(1), m.group(2)))
            hidden.append(m.group(1))
            i += 1
            continue
        m = re.match(r"^ctypedef\s+(.+?)\s+(\w+)\s*$", stripped)
        if m:
            base = re.sub(r"^(const|volatile)\s+", "", m.group(1).strip())
            if base in INT_TYPES:
                INT_TYPES[m.group(2)] = INT_TYPES[base]
            elif base in FLOAT_TYPES:
                FLOAT_TYPES.add(m.group(2))
            else:
                raise PyxTranslateError("unsupported ctypedef: %r" % stripped)
            i += 1
            continue
        m = re.match(r"^(cpdef|cdef)\s+(.*\))\s*(nogil|noexcept|except\s*[^:]+|with\s+gil)*\s*:\s*$", stripped)
        if m and not indent:
            head = re.sub(r"^((?:cpdef|cdef)\s+)((?:inline|api|public)\s+)+", r"\1", stripped)
            head = re.sub(r"\)\s*((nogil|noexcept|with\s+gil|except\s*[^:]+)\s*)+:\s*$", "):", head)
            out.append(indent + head)
            i += 1
            continue
        out.append(line)
        i += 1
    return out


def translate(src):
    """returns (python_source, exported_names, typed_locals {func: {name: type}})."""
    out = []
    exported, hidden = [], []
    typed = {}
    cur = None
    docstring_mode = False
    for line in expand_blocks(logical_lines(src), hidden):
        stripped = line.strip()
        indent = line[:len(line) - len(line.lstrip())]
        if docstring_mode:
            out.append(line)
            if stripped.count('"""') % 2 == 1:
                docstring_mode = False
            continue
        if stripped.startswith('"""') and stripped.count('"""') == 1:
            docstring_mode = True
            out.append(line)
            continue
        if stripped.startswith("# cython:") or stripped.startswith("@cython."):
            continue
        if stripped.startswith("cimport ") or " cimport " in stripped:
            m = re.match(r"^from\s+libc\.math\s+cimport\s+(.*)$", stripped)
            if m:
                for item in [x.strip() for x in m.group(1).split(",") if x.strip()]:
                    src_name, _, alias = item.partition(" as ")
                    src_name, alias = src_name.strip(), (alias.strip() or src_name.strip())
                    if src_name == "abs":
                        continue                                  # builtin abs
                    out.append("%s = _libm(%r)" % (alias, src_name))
                continue
            if stripped in ("cimport cython",) or "cpython" in stripped or re.match(r"^from\s+libc\.(stdint|stddef|string|stdlib)\s+cimport\s", stripped):
                m2 = re.match(r"^from\s+libc\.(?:string|stdlib)\s+cimport\s+(.*)$", stripped)
                if m2:
                    raise PyxTranslateError("libc.string / libc.stdlib functions are not modelled: %r" % stripped)
                continue
            raise PyxTranslateError("unsupported cimport: %r" % stripped)
        m = re.match(r"^(cpdef|cdef)\s+(.*?)(\w+)\((.*)\)\s*:\s*$", stripped)
        if m and not indent:
            kind, rett, name, args = m.group(1), m.group(2).strip(), m.group(3), m.group(4)
            if rett == "void":
                rett = ""
            if rett and rett not in INT_TYPES and rett not in tuple(NUM_EXTRA) and rett not in OBJ_TYPES:
                raise PyxTranslateError("unknown return type %r in %r" % (rett, stripped))
            alist, plist = [], []
            for a in [x.strip() for x in args.split(",") if x.strip()]:
                default = None
                if "=" in a:
                    a, default = [x.strip() for x in a.split("=", 1)]
                t, mv, an = split_type(a)
                if mv:
                    raise PyxTranslateError("memoryview argument not supported: %r" % a)
                alist.append((an, t))
                plist.append(an if default is None else "%s=%s" % (an, default))
            rt = rett if (rett in INT_TYPES or rett in tuple(NUM_EXTRA | {"str"})) else None
            out.append("@_sig(%r, %r)" % (rt, alist))
            out.append("def %s(%s):" % (name, ", ".join(plist)))
            cur = name
            typed[cur] = {an: t for an, t in alist if t in INT_TYPES or t in tuple(NUM_EXTRA)}
            (exported if kind == "cpdef" else hidden).append(name)
            continue
        m = re.match(r"^def\s+(\w+)\(", stripped)
        if m and not indent:
            cur = m.group(1)
            typed[cur] = {}
            exported.append(cur)
            out.append(line)
            continue
        if stripped.startswith("cdef "):
            body = rewrite_casts(stripped[5:])
            if "=" in body:
                decl, expr = [x.strip() for x in body.split("=", 1)]
            else:
                decl, expr = body.strip(), None
            if expr is None and "," in decl:
                # cdef long a, b  -> several typed locals with default values
                first, *others = [x.strip() for x in decl.split(",")]
                t, mv, name = split_type(first)
                if mv or t is None:
                    raise PyxTranslateError("unsupported multi-declaration: %r" % stripped)
                for nm in [name] + others:
                    if not re.match(r"^\w+$", nm):
                        raise PyxTranslateError("unsupported multi-declaration: %r" % stripped)
                    if indent and cur and (t in INT_TYPES or t in tuple(NUM_EXTRA)):
                        typed[cur][nm] = t
                    out.append("%s%s = _dflt(%r)" % (indent, nm, t))
                continue
            t, mv, name = split_type(decl)
            if not indent:
                hidden.append(name)
            if mv == "[:]":
                if expr is None:
                    raise PyxTranslateError("memoryview without initialiser: %r" % stripped)
                out.append("%s%s = _MV(%r, %s)" % (indent, name, t, expr))
            elif mv:
                n = mv.strip("[]")
                if expr is None:
                    out.append("%s%s = [_dflt(%r)] * %s" % (indent, name, t, n))
                else:
                    out.append("%s%s = _carr(%r, %s, %s)" % (indent, name, t, n, expr))
            else:
                if t in INT_TYPES or t in tuple(NUM_EXTRA):
                    if indent and cur:
                        typed[cur][name] = t
                    out.append("%s%s = %s" % (indent, name, ("_co(%r, %s)" % (t, expr)) if expr is not None else "_dflt(%r)" % t))
                else:
                    out.append("%s%s = %s" % (indent, name, expr if expr is not None else "None"))
            continue
        if re.match(r"^(cdef|cpdef|ctypedef|cimport|include|DEF|IF)\b", stripped):
            raise PyxTranslateError("unsupported Cython statement: %r" % stripped)
        out.append(rewrite_casts(line))
    return "\n".join(out) + "\n", exported, hidden, typed


class Coercer(ast.NodeTransformer):
    def __init__(self, typed):
        self.typed = typed
        self.cur = None

    def visit_FunctionDef(self, node):
        prev, self.cur = self.cur, self.typed.get(node.name, {})
        self.generic_visit(node)
        self.cur = prev
        return node

    def _wrap(self, t, value):
        return ast.Call(func=ast.Name(id="_co", ctx=ast.Load()), args=[ast.Constant(t), value], keywords=[])

    def visit_Assign(self, node):
        self.generic_visit(node)
        if self.cur and len(node.targets) == 1 and isinstance(node.targets[0], ast.Name) and node.targets[0].id in self.cur:
            v = node.value
            if isinstance(v, ast.Call) and isinstance(v.func, ast.Name) and v.func.id in ("_co", "_dflt"):
                return node
            node.value = self._wrap(self.cur[node.targets[0].id], v)
        return node

    def visit_AugAssign(self, node):
        self.generic_visit(node)
        if self.cur and isinstance(node.target, ast.Name) and node.target.id in self.cur:
            name = node.target.id
            new = ast.Assign(targets=[ast.Name(id=name, ctx=ast.Store())],
                             value=self._wrap(self.cur[name], ast.BinOp(left=ast.Name(id=name, ctx=ast.Load()), op=node.op, right=node.value)))
            return ast.copy_location(new, node)
        return node


def build_source(src):
    py, exported, hidden, typed = translate(src)
    try:
        tree = ast.parse(py)
    except SyntaxError as e:
        raise PyxTranslateError("translated source does not parse: %s (line %s: %r)" % (e.msg, e.lineno, py.split("\n")[(e.lineno or 1) - 1]))
    tree = Coercer(typed).visit(tree)
    ast.fix_missing_locations(tree)
    return tree, exported, hidden, py


def libm(name):
    """a libc.math name as a Python callable/constant with C semantics (doubles in, double out)."""
    import math
    consts = {"M_PI": math.pi, "M_E": math.e, "M_PI_2": math.pi / 2}
    if name in consts:
        return consts[name]
    special = {"floor": lambda x: float(math.floor(x)), "ceil": lambda x: float(math.ceil(x)),
               "round": lambda x: float(math.floor(abs(x) + 0.5)) * (1 if x >= 0 else -1), "trunc": lambda x: float(math.trunc(x)),
               "fabs": math.fabs, "sqrt": lambda x: math.sqrt(x) if x >= 0 else float("nan"),
               "acos": lambda x: math.acos(x) if -1 <= x <= 1 else float("nan"),
               "asin": lambda x: math.asin(x) if -1 <= x <= 1 else float("nan"),
               "log": lambda x: math.log(x) if x > 0 else (float("-inf") if x == 0 else float("nan")),
               "log10": lambda x: math.log10(x) if x > 0 else (float("-inf") if x == 0 else float("nan")),
               "pow": lambda a, b: math.pow(a, b), "fmod": math.fmod}
    if name in special:
        return special[name]
    if hasattr(math, name):
        return getattr(math, name)
    raise PyxTranslateError("unknown libc.math name %r" % name)


def build(path, name="pyModeS.c_common", text=None):
    import array
    import math
    if text is None:
        with open(path) as f:
            src = f.read()
    else:
        src = text
    tree, exported, hidden, py = build_source(src)
    ns = {
        "_co": co, "_dflt": dflt, "_MV": MV, "_carr": carr, "_sig": sig, "array": array, "_libm": libm,
        "PyBytes_GET_SIZE": len, "PyByteArray_GET_SIZE": len,
        "__name__": name,
    }
    exec(compile(tree, path + " (pyxsim)", "exec"), ns)
    mod = types.ModuleType(name)
    mod.__file__ = path
    mod.__pyxsim__ = True
    for n in exported:
        if n in hidden:
            continue
        setattr(mod, n, ns[n])
    mod.__pyxsim_exported__ = [n for n in exported if n not in hidden]
    mod.__pyxsim_source__ = py
    return mod
