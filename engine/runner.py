"""Runner shared by all checks: parallel enumeration, evidence, findings, replay."""
import collections
import fnmatch
import hashlib
import importlib
import json
import multiprocessing as mp
import os
import sys
import time

ROOT = os.path.dirname(os.path.dirname(os.path.abspath(__file__)))
NPROC = int(os.environ.get("VERIF_NPROC", os.cpu_count() or 4))
CAP_PER_SIG = 8


class Acc:
    """Per-chunk accumulator used inside worker functions."""

    def __init__(self):
        self.n = 0
        self.viols = []
        self.vcount = collections.Counter()
        self.out = set()
        self.c = collections.Counter()
        self.samples = []
        self.cov = {}

    def bad(self, sig, case):
        self.vcount[sig] += 1
        if self.vcount[sig] <= CAP_PER_SIG:
            self.viols.append((sig, case))

    def res(self):
        return {
            "n": self.n,
            "viols": self.viols,
            "vcount": dict(self.vcount),
            "out": self.out,
            "c": dict(self.c),
            "samples": self.samples[:3],
            "cov": self.cov,
        }


def _jsonable(x):
    import numpy as np

    if isinstance(x, dict):
        return {str(k): _jsonable(v) for k, v in x.items()}
    if isinstance(x, (list, tuple)):
        return [_jsonable(v) for v in x]
    if isinstance(x, (set, frozenset)):
        return sorted((_jsonable(v) for v in x), key=repr)
    if isinstance(x, (np.integer,)):
        return int(x)
    if isinstance(x, (np.floating,)):
        return float(x)
    if isinstance(x, np.ndarray):
        return x.tolist()
    if isinstance(x, (bytes, bytearray)):
        return bytes(x).hex()
    if isinstance(x, float) and (x != x or x in (float("inf"), float("-inf"))):
        return repr(x)
    if isinstance(x, (str, int, float, bool)) or x is None:
        return x
    return repr(x)


class Ctx:
    def __init__(self, pid, tier, seed):
        self.pid = pid
        self.tier = tier
        self.seed = seed
        self.thorough = tier == "thorough"
        self.n = 0
        self.viols = collections.defaultdict(list)
        self.vcount = collections.Counter()
        self.out = set()
        self.c = collections.Counter()
        self.cov = {}
        self.samples = []
        self.notes = []
        self.t0 = time.time()
        self._pool = None
        self.vtask = collections.defaultdict(list)   # sig -> task reference of each kept case (same order as viols)

    # ---- merging -------------------------------------------------------
    def add(self, res):
        self.n += res["n"]
        for sig, case in res["viols"]:
            if len(self.viols[sig]) < CAP_PER_SIG:
                self.viols[sig].append(case)
                self.vtask[sig].append(res.get("task"))
        for k, v in res["vcount"].items():
            self.vcount[k] += v
        self.out |= res["out"]
        for k, v in res["c"].items():
            self.c[k] += v
        for s in res.get("samples", []):
            if len(self.samples) < 12:
                self.samples.append(s)
        for k, v in res.get("cov", {}).items():
            if isinstance(v, (int, float)) and not isinstance(v, bool) and k in self.cov:
                self.cov[k] += v
            else:
                self.cov[k] = v

    def pool(self):
        if self._pool is None:
            # one task per forked child: every task starts from the parent's pristine module state, so a task is a
            # self-contained deterministic unit (state cannot leak from one task into the next) and can be replayed alone
            self._pool = mp.get_context("fork").Pool(NPROC, maxtasksperchild=1)
        return self._pool

    def pmap(self, func, args, chunksize=1, ambient=False):
        """Run func over args on the worker pool; merge every result.  ambient=True: every task is run a second time in
        a process that has first called every public decoder on a fixed set of frames (engine.util.ambient)."""
        args = list(args)
        if not args:
            return
        tasks = [(func.__module__, func.__name__, a) for a in args]
        if ambient:
            tasks += [(__name__ if __name__ != "__main__" else "engine.runner", "_ambient_task", t) for t in tasks]
            self.cov["tasks_repeated_after_ambient_calls"] = self.cov.get("tasks_repeated_after_ambient_calls", 0) + len(args)
        if NPROC <= 1 or len(args) == 1:
            for t in tasks:
                self.add(_run_task(t))
            return
        for res in self.pool().imap_unordered(_run_task, tasks, chunksize):
            self.add(res)

    def close(self):
        if self._pool is not None:
            self._pool.close()
            self._pool.join()
            self._pool = None


def _run_task(t):
    """worker entry: run one deterministic task and tag its result with the task reference (for task-level replay)."""
    modname, funcname, arg = t
    try:
        res = getattr(sys.modules.get(modname) or importlib.import_module(modname), funcname)(arg)
    except Exception as e:  # noqa: BLE001
        # an exception that escapes from the code under test through a call the check did not wrap: the library raised on
        # an input the check takes to be inside the property's premises.  Reported as a violation (replayed as a whole
        # task); an exception raised by the harness' own code is re-raised (HARNESS error, never a violation).
        import traceback
        tb = traceback.extract_tb(e.__traceback__)
        src = os.path.realpath(os.environ.get("VERIF_REPO", "/repo"))
        # the exception counts as the library's if, below the last harness frame, it passed through a frame of the code
        # under test (the innermost frame may belong to numpy or the standard library called from there)
        root = os.path.realpath(ROOT) + os.sep
        last_mine = max([i for i, f in enumerate(tb) if os.path.realpath(f.filename).startswith(root)] or [-1])
        lib = [f for f in tb[last_mine + 1:] if os.path.realpath(f.filename).startswith(src + os.sep)]
        if not lib:
            raise
        inner = lib[-1]
        mine = [f for f in tb[:last_mine + 1]]
        sig = "code_under_test_raises:%s:in_%s:called_from_%s" % (type(e).__name__, inner.name, mine[-1].name if mine else "?")
        res = {"n": 1, "viols": [(sig, {"kind": "__crash__", "where": "%s:%d" % (os.path.basename(inner.filename), inner.lineno or 0), "message": str(e)[:200]})],
               "vcount": {sig: 1}, "out": set(), "c": {}, "samples": [], "cov": {}}
    res["task"] = t
    return res


def _ambient_task(t):
    """run one task after the fixed 'earlier life' of engine.util.ambient in the same process."""
    from engine import util
    modname, funcname, arg = t
    mod = sys.modules.get(modname) or importlib.import_module(modname)
    for p in ([mod.pms] if hasattr(mod, "pms") else [mod.pm("P")]):
        util.ambient(p)
    res = getattr(mod, funcname)(arg)
    res["viols"] = [(s_ + ":after_other_decoders_ran_in_the_process", c_) for s_, c_ in res["viols"]]
    res["vcount"] = {k + ":after_other_decoders_ran_in_the_process": v for k, v in res["vcount"].items()}
    return res


def task_replay_fresh(t):
    """re-run one task in a brand-new interpreter (clean module state); returns the set of signatures it reports."""
    import base64
    import pickle
    import subprocess
    modname, funcname, arg = t
    code = ("import sys,pickle,base64,json,importlib; sys.path.insert(0,%r); from engine import runner; "
            "arg=pickle.loads(base64.b64decode(sys.stdin.buffer.read())); r=runner._run_task((%r,%r,arg)); "
            "print('@@TASK@@'+json.dumps(sorted(r['vcount'])))" % (ROOT, modname, funcname))
    p = subprocess.run([sys.executable, "-c", code], input=base64.b64encode(pickle.dumps(arg)), capture_output=True, timeout=3600)
    for ln in p.stdout.decode(errors="replace").split("\n"):
        if ln.startswith("@@TASK@@"):
            return set(json.loads(ln[8:]))
    return set()


def shrink_seqx(modname, tag, sig, depth=3):
    import subprocess
    p = subprocess.run([sys.executable, "-m", "engine.shrink", modname, tag if tag else "-", sig, str(depth)],
                       cwd=ROOT, capture_output=True, timeout=1800)
    for ln in p.stdout.decode(errors="replace").split("\n"):
        if ln.startswith("@@SHRUNK@@"):
            return json.loads(ln[10:])
    return None


def load_findings():
    p = os.path.join(ROOT, "known_findings.json")
    if not os.path.exists(p):
        return {"known": [], "fixed": []}
    with open(p) as f:
        return json.load(f)


def write_replay(pid, sig, case):
    d = os.path.join(os.environ.get("VERIF_REPLAY_DIR", os.path.join(ROOT, "replays")), pid)
    os.makedirs(d, exist_ok=True)
    body = {"property": pid, "signature": sig, "case": _jsonable(case)}
    txt = json.dumps(body, sort_keys=True, indent=1)
    h = hashlib.sha1(txt.encode()).hexdigest()[:12]
    path = os.path.join(d, h + ".json")
    with open(path, "w") as f:
        f.write(txt + "\n")
    return path


def case_size(case):
    return len(json.dumps(_jsonable(case), sort_keys=True))


def main(argv=None):
    import argparse

    ap = argparse.ArgumentParser()
    ap.add_argument("pid")
    ap.add_argument("--tier", default=os.environ.get("VERIF_TIER", "quick"), choices=["quick", "thorough"])
    ap.add_argument("--replay")
    ap.add_argument("--no-evidence", action="store_true")
    a = ap.parse_args(argv)
    pid = a.pid.upper()
    seed = int(os.environ.get("VERIF_SEED", "0"))
    sys.path.insert(0, ROOT)
    mod = importlib.import_module("checks." + pid.lower())

    if a.replay:
        with open(a.replay) as f:
            body = json.load(f)
        if isinstance(body["case"], dict) and body["case"].get("kind") == "__task__":
            import base64
            import pickle
            c = body["case"]
            r = _run_task((c["module"], c["func"], pickle.loads(base64.b64decode(c["arg_b64"]))))
            got = [(s_, cs) for s_, cs in r["viols"] if s_ == body["signature"]][:1]
        else:
            got = mod.replay(body["case"])
        if got:
            for sig, case in got:
                print("REPLAY-FAILS property=%s signature=%s" % (pid, sig))
                print(json.dumps(_jsonable(case), sort_keys=True))
            print("VIOLATION property=%s replay=%s" % (pid, a.replay))
            return 1
        print("REPLAY-OK property=%s (the recorded case no longer violates)" % pid)
        return 0

    ctx = Ctx(pid, a.tier, seed)
    try:
        mod.run(ctx)
    finally:
        ctx.close()

    findings = load_findings()
    known = [k for k in findings.get("known", []) if k["property"] == pid]
    exit_code = 0
    new_viol = 0
    reported_known = set()
    AMB = ":after_other_decoders_ran_in_the_process"
    for sig in sorted(ctx.viols):
        if sig.endswith(AMB) and sig[:-len(AMB)] in ctx.viols:
            continue        # the same failure without the ambient calls is already reported
        cases = sorted(ctx.viols[sig], key=case_size)
        case = cases[0]
        # a violation is re-executed from its replay form before it is believed
        if isinstance(case, dict) and case.get("kind") == "__crash__":
            again = []          # an escaped exception has no single-case replay form: the whole task is its replay
        else:
            again = mod.replay(json.loads(json.dumps(_jsonable(case))))
        if not any(s == sig for s, _ in again):
            # the single case does not fail on its own: the failure may depend on the calls made before it in the same
            # process (hidden caches, carried state).  Re-run the whole deterministic task that produced it in a brand-new
            # interpreter; if the signature shows up again the violation is real and the task is its replay form.
            t = ctx.vtask[sig][ctx.viols[sig].index(case)] if sig in ctx.vtask else None
            if t is not None and sig in task_replay_fresh(t):
                import base64
                import pickle
                shrunk = None
                if isinstance(case, dict) and case.get("kind") == "seqx" and hasattr(mod, "seq_thunks"):
                    shrunk = shrink_seqx(mod.__name__, case.get("tag"), sig)
                if shrunk:
                    case = dict(case, sequence=shrunk, note="shortest failing call sequence from the initial state")
                    path = write_replay(pid, sig, case)
                    new_viol += ctx.vcount[sig]
                    exit_code = 1
                    print("  signature=%s cases=%d [history-dependent; shortest sequence from a fresh process] first=%s"
                          % (sig, ctx.vcount[sig], json.dumps(_jsonable(case), sort_keys=True)[:600]))
                    print("VIOLATION property=%s replay=%s" % (pid, os.path.relpath(path, ROOT) if path.startswith(ROOT) else path))
                    continue
                case = {"kind": "__task__", "module": t[0], "func": t[1],
                        "arg_b64": base64.b64encode(pickle.dumps(t[2])).decode(),
                        "note": "history-dependent: the case below fails only after the earlier calls of this task in one process",
                        "failing_case": _jsonable(case)}
            else:
                print("HARNESS-ERROR property=%s signature=%s does not reproduce from its replay form: %s"
                      % (pid, sig, json.dumps(_jsonable(case), sort_keys=True)[:400]))
                return 2
        kf = [k for k in known if fnmatch.fnmatchcase(sig, k["signature"])]
        if kf:
            if kf[0]["signature"] not in reported_known:
                reported_known.add(kf[0]["signature"])
                print("KNOWN-FINDING: property=%s %s [signature %s, %d cases this run]"
                      % (pid, kf[0]["what"], sig, ctx.vcount[sig]))
            continue
        path = write_replay(pid, sig, case)
        new_viol += ctx.vcount[sig]
        exit_code = 1
        shown = case.get("failing_case", case) if isinstance(case, dict) and case.get("kind") == "__task__" else case
        print("  signature=%s cases=%d%s first=%s" % (sig, ctx.vcount[sig],
              " [history-dependent: replays as a whole task in a fresh process]" if shown is not case else "",
              json.dumps(_jsonable(shown), sort_keys=True)[:600]))
        print("VIOLATION property=%s replay=%s" % (pid, os.path.relpath(path, ROOT) if path.startswith(ROOT) else path))

    wall = time.time() - ctx.t0
    level = mod.LEVEL
    cov = {
        "evaluations": int(ctx.n),
        "distinct_nontrivial": int(len(ctx.out)),
        "rule": mod.RULE,
        "samples": _jsonable(ctx.samples[:8]) or ["(no sample recorded)"],
        "counters": {k: int(v) for k, v in sorted(ctx.c.items())},
        "signatures_seen": {k: int(v) for k, v in sorted(ctx.vcount.items())},
        "known_findings_reported": sorted(reported_known),
    }
    cov.update(_jsonable(ctx.cov))
    ev = {
        "property_id": pid,
        "tier": a.tier,
        "seed": seed,
        "level": level,
        "coverage": cov,
        "assumptions": list(getattr(mod, "ASSUMPTIONS", [])) + ctx.notes,
        "wall_s": round(wall, 2),
        "violations": int(new_viol),
    }
    if not a.no_evidence:
        os.makedirs(os.path.join(ROOT, "evidence"), exist_ok=True)
        with open(os.path.join(ROOT, "evidence", pid + ".json"), "w") as f:
            json.dump(ev, f, indent=1, sort_keys=True)
            f.write("\n")
    if exit_code == 0 and getattr(ctx, "deferred", None):
        # part of the check could not be decided (e.g. the .pyx uses a construct the model translator does not know):
        # whatever was decided found nothing, but silence would overstate it
        print("HARNESS-ERROR property=%s %s" % (pid, ctx.deferred))
        return 2
    print("%s %s tier=%s seed=%d evaluations=%d distinct=%d violations=%d known=%d wall=%.1fs %s"
          % ("FAIL" if exit_code else "PASS", pid, a.tier, seed, ctx.n, len(ctx.out), new_viol,
             len(reported_known), wall,
             " ".join("%s=%s" % (k, v) for k, v in sorted(cov.items())
                      if k in ("states", "transitions", "traces_validated_against_impl", "exhaustive"))))
    return exit_code
