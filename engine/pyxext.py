"""Optional conformance target for pyxsim: the compiled Cython extension.

Cython is not installed, so only an already generated c_common.c (a git-ignored build artefact that may
lie next to the .pyx) can be compiled - with gcc, into a scratch directory that is deleted afterwards.
The .c embeds the .pyx source lines it was generated from; we look for the revision of c_common.pyx
(working tree first, then git history) whose lines match, so that the translator can be validated against
the extension *on the same source text*.
"""
import importlib.util
import os
import re
import shutil
import subprocess
import sysconfig
import tempfile


def embedded_lines(cpath):
    """{line number: source text} recovered from the Cython comments of a generated .c file."""
    out = {}
    cur = None
    with open(cpath, errors="replace") as f:
        for ln in f:
            m = re.match(r'\s*/\* "pyModeS/c_common\.pyx":(\d+)\s*$', ln)
            if m:
                cur = int(m.group(1))
                continue
            if cur is not None:
                if ln.startswith(" * ") and ln.rstrip().endswith("# <<<<<<<<<<<<<<"):
                    out[cur] = ln[3:].rstrip()[:-len("# <<<<<<<<<<<<<<")].rstrip()
                    cur = None
                elif ln.startswith("*/"):
                    cur = None
    return out


def matches(emb, text):
    lines = text.split("\n")
    for n, src in emb.items():
        if n - 1 >= len(lines) or lines[n - 1].rstrip() != src:
            return False
    return len(emb) > 50


def find_source(repo):
    """returns (label, pyx_text) of the pyx revision the generated .c corresponds to, or None."""
    cpath = os.path.join(repo, "src", "pyModeS", "c_common.c")
    pyx = os.path.join(repo, "src", "pyModeS", "c_common.pyx")
    if not os.path.exists(cpath):
        return None
    emb = embedded_lines(cpath)
    with open(pyx) as f:
        cur = f.read()
    if matches(emb, cur):
        return "working tree", cur
    try:
        revs = subprocess.check_output(["git", "-C", repo, "log", "--format=%H", "--", "src/pyModeS/c_common.pyx"],
                                       stderr=subprocess.DEVNULL).decode().split()
    except Exception:
        return None
    for r in revs:
        try:
            txt = subprocess.check_output(["git", "-C", repo, "show", "%s:src/pyModeS/c_common.pyx" % r],
                                          stderr=subprocess.DEVNULL).decode()
        except Exception:
            continue
        if matches(emb, txt):
            return "git " + r[:10], txt
    return None


def compile_ext(repo):
    """compile c_common.c into a scratch dir; returns (module, scratch_dir) or raises."""
    cpath = os.path.join(repo, "src", "pyModeS", "c_common.c")
    scratch = tempfile.mkdtemp(prefix="pyxext.")
    so = os.path.join(scratch, "c_common" + sysconfig.get_config_var("EXT_SUFFIX"))
    inc = sysconfig.get_paths()["include"]
    try:
        subprocess.check_call(["gcc", "-O1", "-w", "-shared", "-fPIC", "-I" + inc, cpath, "-o", so],
                              stdout=subprocess.DEVNULL, stderr=subprocess.DEVNULL, timeout=300)
        spec = importlib.util.spec_from_file_location("pyModeS.c_common", so)
        mod = importlib.util.module_from_spec(spec)
        spec.loader.exec_module(mod)
    except Exception:
        shutil.rmtree(scratch, ignore_errors=True)
        raise
    return mod, scratch
