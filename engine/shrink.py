"""Shortest failing call sequence for a 'seqx' violation.

Run as a fresh interpreter:  python -m engine.shrink <check module> <tag> <signature> <max depth>
The module is imported once (pristine state); every candidate sequence is executed in a forked child of that pristine
process, shortest first, so the first failing one is a minimal, self-contained counterexample."""
import importlib
import itertools
import json
import os
import sys


def run_in_child(thunks, idxs, want):
    r, w = os.pipe()
    pid = os.fork()
    if pid == 0:
        os.close(r)
        res = "0"
        try:
            for i in idxs:
                s = thunks[i][1]()
                if s:
                    res = "1" if (s + ":in_a_call_sequence") == want or s == want else "0"
                    break
        except BaseException:
            res = "0"
        os.write(w, res.encode())
        os._exit(0)
    os.close(w)
    out = os.read(r, 1)
    os.close(r)
    os.waitpid(pid, 0)
    return out == b"1"


def main():
    modname, tag, want, depth = sys.argv[1], sys.argv[2], sys.argv[3], int(sys.argv[4])
    sys.path.insert(0, os.path.dirname(os.path.dirname(os.path.abspath(__file__))))
    mod = importlib.import_module(modname)
    thunks = mod.seq_thunks(None if tag == "-" else tag)
    n = len(thunks)
    for L in range(1, depth + 1):
        for seq in itertools.product(range(n), repeat=L):
            if run_in_child(thunks, seq, want):
                print("@@SHRUNK@@" + json.dumps([thunks[i][0] for i in seq]))
                return
    print("@@SHRUNK@@null")


if __name__ == "__main__":
    main()
