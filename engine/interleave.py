"""Interleaving exploration for the (stateless) decoders: every schedule of two calls with at most ONE preemption.

pyModeS' decoders are plain functions that are called from several threads in practice (one reader thread per feed).
Between any two source lines of one call, another call may run to completion.  With a preemption bound of 1 every
schedule of two calls A and B has the form

    A runs up to (but not including) its k-th traced line  ->  B runs completely  ->  A runs to its end        (k = 1..nA)

(plus the two sequential orders, k = 0 and k = nA + 1, which the call-sequence explorations cover).  Because B runs to
completion while A is suspended at a line boundary, the schedule can be executed deterministically in ONE thread: B is
called from inside A's line-trace callback.  That is exactly the state a real context switch at that bytecode-line
boundary produces for everything the two calls can share (module globals, class attributes, mutable defaults, shared
helper objects); threading.local objects of the package are given one namespace per logical thread (_LocalProxy).  Scheduling points are the 'line' events of frames
whose code lives under the package source directory, so C-level numpy work is atomic (as it is under the GIL).

A real lock would make some of these schedules infeasible (B would block until A releases).  A watchdog timer (1.5 s,
SIGALRM) turns a nested call that blocks into Infeasible: such a schedule is skipped instead of deadlocking, and counted.
(install_lock_stubs() offers the same without waiting, for harnesses that can afford to replace threading.Lock globally.)

explore(fa, args_a, fb, args_b, src_prefix) -> dict(points=nA, schedules=[(k, result_a, result_b)], infeasible=n)
"""
import sys
import threading


class Infeasible(BaseException):
    pass


CUR = [0]      # which logical thread is running: 0 = the main / suspended call A, 1 = the nested call B


class _ExploreLock:
    """stand-in for threading.Lock during exploration: single-threaded, so 'held by the other logical thread' = would block
    = the schedule is infeasible.  Outside an exploration it behaves like an uncontended lock."""

    def __init__(self, *a, **k):
        self._held = 0
        self._owner = None
        self._reentrant = False

    def acquire(self, blocking=True, timeout=-1):
        if self._held:
            if self._owner != CUR[0]:
                if not blocking:
                    return False
                raise Infeasible()
            if not self._reentrant:
                raise RuntimeError("deadlock: non-reentrant lock acquired twice by one call")
        self._held += 1
        self._owner = CUR[0]
        return True

    def release(self):
        if self._held:
            self._held -= 1
            if not self._held:
                self._owner = None

    def locked(self):
        return bool(self._held)

    __enter__ = acquire

    def __exit__(self, *a):
        self.release()


class _ExploreRLock(_ExploreLock):
    def __init__(self, *a, **k):
        super().__init__()
        self._reentrant = True      # re-entry by the same logical thread is fine; the other one is blocked (Infeasible)


def install_lock_stubs():
    """to be called BEFORE the package under test is imported."""
    threading.Lock = _ExploreLock
    threading.RLock = _ExploreRLock


class _LocalProxy:
    """stand-in for a threading.local object of the package: the two logical threads of an exploration run in ONE OS thread,
    so a real thread-local would be shared between them, which no real schedule does.  Logical thread 0 uses the original
    object, logical thread 1 a fresh instance of the same class (created for every nested call: a new thread each time)."""

    def __init__(self, orig):
        object.__setattr__(self, "_orig", orig)
        object.__setattr__(self, "_other", None)

    def _target(self):
        if CUR[0] == 0:
            return object.__getattribute__(self, "_orig")
        o = object.__getattribute__(self, "_other")
        if o is None:
            orig = object.__getattribute__(self, "_orig")
            try:
                o = type(orig)()
            except Exception:  # noqa: BLE001
                o = threading.local()
            object.__setattr__(self, "_other", o)
        return o

    def __getattr__(self, k):
        return getattr(self._target(), k)

    def __setattr__(self, k, v):
        setattr(self._target(), k, v)

    def __delattr__(self, k):
        delattr(self._target(), k)


def _fresh_thread():
    for p_ in _PROXIES:
        object.__setattr__(p_, "_other", None)


_PROXIES = []
_STUBBED = set()


def stub_package_locks(src_prefix):
    """replace the real locks the package under test keeps in module globals / class attributes by exploration locks, and
    its threading.local objects by per-logical-thread proxies (idempotent).  A lock that cannot be found this way (captured in a closure, created per call) still works: a nested
    call blocking on it is cut off by the watchdog in run_schedule and counted as infeasible - only slower."""
    import _thread
    real = (_thread.LockType, type(threading.RLock()))
    for name, mod in list(sys.modules.items()):
        f = getattr(mod, "__file__", None)
        if not f or not f.startswith(src_prefix) or name in _STUBBED:
            continue
        _STUBBED.add(name)
        for holder in [mod] + [v for v in vars(mod).values() if isinstance(v, type) and getattr(v, "__module__", None) == name]:
            for k, v in list(vars(holder).items()):
                if isinstance(v, real):
                    try:
                        setattr(holder, k, _ExploreRLock() if isinstance(v, real[1]) else _ExploreLock())
                    except (AttributeError, TypeError):
                        pass
                elif isinstance(v, threading.local):
                    try:
                        pr = _LocalProxy(v)
                        setattr(holder, k, pr)
                        _PROXIES.append(pr)
                    except (AttributeError, TypeError):
                        pass


def _run(f, args):
    try:
        return ("ok", f(*args))
    except Infeasible:
        raise
    except Exception as e:  # noqa: BLE001
        return ("exc", type(e).__name__)


def count_points(fa, args_a, src_prefix):
    n = [0]

    def local(frame, event, arg):
        if event == "line":
            n[0] += 1
        return local

    def glob(frame, event, arg):
        if event == "call" and frame.f_code.co_filename.startswith(src_prefix):
            return local
        return None
    old = sys.gettrace()
    sys.settrace(glob)
    try:
        ra = _run(fa, args_a)
    finally:
        sys.settrace(old)
    return n[0], ra


def run_schedule(fa, args_a, fb, args_b, k, src_prefix):
    """A preempted before its k-th traced line by a complete run of B. returns (result_a, result_b) or None if infeasible.
    k may be a tuple (k1, k2, ...): A is preempted before each of those lines, every time by a complete fresh run of B
    (preemption bound len(k)); result_b is then the tuple of B's results."""
    ks = tuple(k) if isinstance(k, (tuple, list)) else (k,)
    multi = isinstance(k, (tuple, list))
    st = {"n": 0, "in_b": False, "rb": None, "fired": False, "infeasible": False, "rbs": [], "nf": 0}

    def local(frame, event, arg):
        if st["in_b"]:
            return local
        if event == "line":
            st["n"] += 1
            if st["n"] in ks and st["nf"] < len(ks) and st["n"] == ks[st["nf"]]:
                st["nf"] += 1
                st["fired"] = st["nf"] == len(ks)
                st["in_b"] = True
                CUR[0] = 1
                _fresh_thread()
                try:
                    st["rb"] = _run(fb, args_b)
                    st["rbs"].append(st["rb"])
                except Infeasible:
                    st["infeasible"] = True
                finally:
                    st["in_b"] = False
                    CUR[0] = 0
        return local

    def glob(frame, event, arg):
        if st["in_b"]:
            return None
        if event == "call" and frame.f_code.co_filename.startswith(src_prefix):
            return local
        return None
    import signal

    def on_alarm(signum, frm):
        raise Infeasible()          # a nested call blocked on a lock the suspended call holds: not a feasible schedule
    old = sys.gettrace()
    try:
        old_h = signal.signal(signal.SIGALRM, on_alarm)
        signal.setitimer(signal.ITIMER_REAL, 1.5)
        timer = True
    except ValueError:              # not in the main thread: no watchdog
        timer = False
    sys.settrace(glob)
    try:
        try:
            ra = _run(fa, args_a)
        except Infeasible:
            return None
    finally:
        sys.settrace(old)
        if timer:
            signal.setitimer(signal.ITIMER_REAL, 0)
            signal.signal(signal.SIGALRM, old_h)
    if st["infeasible"] or not st["fired"]:
        return None
    return ra, (tuple(st["rbs"]) if multi else st["rb"])


def explore(fa, args_a, fb, args_b, src_prefix, max_points=400, bound=1):
    stub_package_locks(src_prefix)
    n, _ = count_points(fa, args_a, src_prefix)
    out, infeasible = [], 0
    if bound == 2:
        # every pair of preemption points k1 < k2 (B runs completely at both); schedules with one preemption are the bound-1 set
        m = min(n, max_points)
        for k1 in range(1, m + 1):
            for k2 in range(k1 + 1, m + 1):
                r = run_schedule(fa, args_a, fb, args_b, (k1, k2), src_prefix)
                if r is None:
                    infeasible += 1
                else:
                    out.append(((k1, k2), r[0], r[1]))
        return {"points": n, "schedules": out, "infeasible": infeasible, "capped": n > max_points}
    for k in range(1, min(n, max_points) + 1):
        r = run_schedule(fa, args_a, fb, args_b, k, src_prefix)
        if r is None:
            infeasible += 1
        else:
            out.append((k, r[0], r[1]))
    return {"points": n, "schedules": out, "infeasible": infeasible, "capped": n > max_points}
