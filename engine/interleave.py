"""Interleaving exploration for the (stateless) decoders: every schedule of two calls with at most ONE preemption.

pyModeS' decoders are plain functions that are called from several threads in practice (one reader thread per feed).
Between any two source lines of one call, another call may run to completion.  With a preemption bound of 1 every
schedule of two calls A and B has the form

    A runs up to (but not including) its k-th traced line  ->  B runs completely  ->  A runs to its end        (k = 1..nA)

(plus the two sequential orders, k = 0 and k = nA + 1, which the call-sequence explorations cover).  Because B runs to
completion while A is suspended at a line boundary, the schedule can be executed deterministically in ONE thread: B is
called from inside A's line-trace callback.  That is exactly the state a real context switch at that bytecode-line
boundary produces for everything the two calls can share (module globals, class attributes, mutable defaults, shared
helper objects); thread-local storage does not exist in this code base.  Scheduling points are the 'line' events of frames
whose code lives under the package source directory, so C-level numpy work is atomic (as it is under the GIL).

A real lock would make some of these schedules infeasible (B would block until A releases).  A watchdog timer (3 s,
SIGALRM) turns a nested call that blocks into Infeasible: such a schedule is skipped instead of deadlocking, and counted.
(install_lock_stubs() offers the same without waiting, for harnesses that can afford to replace threading.Lock globally.)

explore(fa, args_a, fb, args_b, src_prefix) -> dict(points=nA, schedules=[(k, result_a, result_b)], infeasible=n)
"""
import sys
import threading


class Infeasible(BaseException):
    pass


class _ExploreLock:
    """stand-in for threading.Lock during exploration: single-threaded, so 'held by the suspended call' = would block."""

    def __init__(self, *a, **k):
        self._held = 0
        self._reentrant = False

    def acquire(self, blocking=True, timeout=-1):
        if self._held and not self._reentrant:
            raise Infeasible()
        self._held += 1
        return True

    def release(self):
        if self._held:
            self._held -= 1

    def locked(self):
        return bool(self._held)

    __enter__ = acquire

    def __exit__(self, *a):
        self.release()


class _ExploreRLock(_ExploreLock):
    def __init__(self, *a, **k):
        super().__init__()
        self._reentrant = False     # re-entry by the SAME call is fine in reality, but here the nested call is "another thread":
        #                             an RLock held by the suspended call blocks it too


def install_lock_stubs():
    """to be called BEFORE the package under test is imported."""
    threading.Lock = _ExploreLock
    threading.RLock = _ExploreRLock


def _run(f, args):
    try:
        return ("ok", f(*args))
    except Infeasible:
        raise
    except Exception as e:  # noqa: BLE001
        return ("exc", type(e).__name__)


def count_points(fa, args_a, src_prefix):
    n = [0]

    def local(frame, event, arg):
        if event == "line":
            n[0] += 1
        return local

    def glob(frame, event, arg):
        if event == "call" and frame.f_code.co_filename.startswith(src_prefix):
            return local
        return None
    old = sys.gettrace()
    sys.settrace(glob)
    try:
        ra = _run(fa, args_a)
    finally:
        sys.settrace(old)
    return n[0], ra


def run_schedule(fa, args_a, fb, args_b, k, src_prefix):
    """A preempted before its k-th traced line by a complete run of B. returns (result_a, result_b) or None if infeasible."""
    st = {"n": 0, "in_b": False, "rb": None, "fired": False, "infeasible": False}

    def local(frame, event, arg):
        if st["in_b"]:
            return local
        if event == "line":
            st["n"] += 1
            if st["n"] == k and not st["fired"]:
                st["fired"] = True
                st["in_b"] = True
                try:
                    st["rb"] = _run(fb, args_b)
                except Infeasible:
                    st["infeasible"] = True
                finally:
                    st["in_b"] = False
        return local

    def glob(frame, event, arg):
        if st["in_b"]:
            return None
        if event == "call" and frame.f_code.co_filename.startswith(src_prefix):
            return local
        return None
    import signal

    def on_alarm(signum, frm):
        raise Infeasible()          # a nested call blocked on a lock the suspended call holds: not a feasible schedule
    old = sys.gettrace()
    try:
        old_h = signal.signal(signal.SIGALRM, on_alarm)
        signal.setitimer(signal.ITIMER_REAL, 3.0)
        timer = True
    except ValueError:              # not in the main thread: no watchdog
        timer = False
    sys.settrace(glob)
    try:
        try:
            ra = _run(fa, args_a)
        except Infeasible:
            return None
    finally:
        sys.settrace(old)
        if timer:
            signal.setitimer(signal.ITIMER_REAL, 0)
            signal.signal(signal.SIGALRM, old_h)
    if st["infeasible"] or not st["fired"]:
        return None
    return ra, st["rb"]


def explore(fa, args_a, fb, args_b, src_prefix, max_points=400):
    n, _ = count_points(fa, args_a, src_prefix)
    out, infeasible = [], 0
    for k in range(1, min(n, max_points) + 1):
        r = run_schedule(fa, args_a, fb, args_b, k, src_prefix)
        if r is None:
            infeasible += 1
        else:
            out.append((k, r[0], r[1]))
    return {"points": n, "schedules": out, "infeasible": infeasible, "capped": n > max_points}
