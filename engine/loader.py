"""Import pyModeS from the working tree under check.

$VERIF_REPO (default /repo) names the tree; its src/ directory is put first on
sys.path so that the *current* sources are what gets executed (the editable
install in /venv points at /repo/src as well, but a scratch copy must win).

Configurations
  P  sys.modules['pyModeS.c_common'] = None  -> __init__ falls back to py_common
  C  a module produced by engine.pyxsim from the current c_common.pyx is placed
     at sys.modules['pyModeS.c_common'] before the package is imported, so every
     decoder runs on the Cython module's semantics.
"""
import importlib
import os
import sys

REPO = os.environ.get("VERIF_REPO", "/repo")
SRC = os.path.join(REPO, "src")


def _purge():
    for k in [k for k in sys.modules if k == "pyModeS" or k.startswith("pyModeS.")]:
        del sys.modules[k]


def fake_rtlsdr():
    """pyrtlsdr is not installed (and there is no device): a stand-in module so that RtlReader / RtlSdrSource can be built
    by their REAL constructors - every attribute the constructor sets exists, as in production - instead of object.__new__."""
    import types
    if "rtlsdr" not in sys.modules or getattr(sys.modules["rtlsdr"], "__verif_fake__", False):
        m = types.ModuleType("rtlsdr")
        m.__verif_fake__ = True

        class RtlSdr:                       # noqa: D401 - attribute bag; the checks never read samples through it
            def __init__(self, *a, **k):
                self.sample_rate = self.center_freq = self.gain = None

            def read_samples_async(self, *a, **k):
                raise RuntimeError("no SDR device in the verification harness")

            def close(self):
                pass
        m.RtlSdr = RtlSdr
        sys.modules["rtlsdr"] = m


def load(config="P"):
    """Return the freshly imported pyModeS package in configuration P or C."""
    _purge()
    fake_rtlsdr()
    if SRC in sys.path:
        sys.path.remove(SRC)
    sys.path.insert(0, SRC)
    if config == "P":
        sys.modules["pyModeS.c_common"] = None
    elif config == "C":
        from engine import pyxsim

        sys.modules["pyModeS.c_common"] = pyxsim.build(
            os.path.join(SRC, "pyModeS", "c_common.pyx")
        )
    else:
        raise ValueError(config)
    pms = importlib.import_module("pyModeS")
    import warnings
    warnings.simplefilter("ignore", DeprecationWarning)      # the package re-enables them at import; checks call deprecated aliases on purpose
    f = os.path.realpath(pms.__file__)
    if not f.startswith(os.path.realpath(SRC) + os.sep):
        raise SystemExit("HARNESS-ERROR: pyModeS imported from %s, not from %s" % (f, SRC))
    want = "py_common" if config == "P" else "c_common"
    if not pms.common.__name__.endswith(want):
        raise SystemExit("HARNESS-ERROR: configuration %s selected %s" % (config, pms.common.__name__))
    return pms
