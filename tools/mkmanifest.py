#!/usr/bin/env python3
"""Regenerate MANIFEST.json from tools/registry.json (claimed checks) and validate it."""
import json, os, sys
ROOT = os.path.dirname(os.path.dirname(os.path.abspath(__file__)))
reg = json.load(open(os.path.join(ROOT, "tools", "registry.json")))
props = [json.loads(l) for l in open(os.path.join(ROOT, "properties.jsonl"))]
checks = []
claimed = set()
for pid, r in sorted(reg["checks"].items()):
    claimed.add(pid)
    checks.append({
        "property_id": pid,
        "quick_cmd": "./check %s --tier quick" % pid,
        "thorough_cmd": "./check %s --tier thorough" % pid,
        "evidence_file": "/verif/evidence/%s.json" % pid,
        "replay_cmd_template": "./check %s --replay {path}" % pid,
        "engine": r.get("engine", "bxe"),
        "level_claimed": {"category": r["level"], "text": r["text"], "design_ref": "DESIGN.md section 4, " + pid},
        "level_note": r["note"],
        "technique": r["technique"],
    })
na = [{"property_id": p["id"], "reason": reg["not_applicable"].get(p["id"], "check not built yet (see DESIGN.md section 9 build order)")}
      for p in props if p["id"] not in claimed]
man = {
    "version": 1,
    "setup_cmd": "/venv/bin/python -c \"import numpy, sys; sys.path.insert(0, '/verif'); import engine.runner\"",
    "hooks": {
        "guard": "PYMODES_VERIF",
        "enable": "no hooks are needed: checks import pyModeS from $VERIF_REPO/src (default /repo/src) in a fresh interpreter",
        "baseline_off_cmd": "cd /repo && /venv/bin/python -m pytest -ra -q -p no:cacheprovider --timeout=900 --continue-on-collection-errors",
        "source_commits": [],
        "add_only": True,
    },
    "engines": reg["engines"],
    "checks": checks,
    "notes": reg["notes"],
    "not_applicable": na,
}
json.dump(man, open(os.path.join(ROOT, "MANIFEST.json"), "w"), indent=1)
try:
    import jsonschema
    jsonschema.validate(man, json.load(open("/root/.vp/MANIFEST.schema.json")))
    print("MANIFEST.json valid; claimed:", sorted(claimed))
except ImportError:
    print("jsonschema not importable here; run with python3-vt")
