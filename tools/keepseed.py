#!/usr/bin/env python3
"""tools/keepseed.py <tmp seed dir> <name> <checks...> : copy a confirmed seeded change to seeded/<name>/ with meta.json
extended by what was run here (output of tools/seed)."""
import json, os, shutil, subprocess, sys
src, name, checks = sys.argv[1], sys.argv[2], sys.argv[3:]
root = os.path.dirname(os.path.dirname(os.path.abspath(__file__)))
dst = os.path.join(root, "seeded", name)
os.makedirs(dst, exist_ok=True)
for f in ("patch.diff", "demo.py"):
    shutil.copy(os.path.join(src, f), os.path.join(dst, f))
meta = json.load(open(os.path.join(src, "meta.json")))
out = subprocess.run([os.path.join(root, "tools", "seed"), src] + checks, capture_output=True, text=True).stdout
lines = [l for l in out.split("\n") if l.startswith(("repo-tests", "demo-", "C")) ]
meta["breaks_property"] = meta.get("property")
meta["needs_to_manifest"] = meta.get("needs")
meta["origin"] = "written by an independent sub-agent that saw only the property text and a scratch worktree"
meta["confirmed_here"] = {"ran": "tools/seed %s %s (scratch copy of /repo at %s)" % (name, " ".join(checks),
                          subprocess.check_output(["git", "-C", "/repo", "log", "--format=%h", "-1"], text=True).strip()),
                          "result": [l[:300] for l in lines]}
json.dump(meta, open(os.path.join(dst, "meta.json"), "w"), indent=1)
print("\n".join(lines)[:1500])
