#!/usr/bin/env python3
"""tools/mkprompt.py <wave-tag> <PID>=<focus text> ... : create a scratch worktree of /repo under /tmp/wt/<PID>-<tag> and
write the instructions for an independent sub-agent to /tmp/wt/<PID>-<tag>.prompt.  The agent sees only the property
text (id, title, statement, anchors), its worktree and the one-line summaries of the changes already tried for that
property (so that it picks another mechanism); nothing from /verif."""
import json, os, subprocess, sys
tag = sys.argv[1]
props = {}
for l in open('/verif/properties.jsonl'):
    d = json.loads(l); props[d['id']] = d
avoid = {}
for n in sorted(os.listdir('/verif/seeded')):
    m = json.load(open('/verif/seeded/%s/meta.json' % n))
    avoid.setdefault(n[:3], []).append(m.get('summary', '')[:240].replace('\n', ' '))
T = '''You are helping evaluate a verification harness for the open-source Python library junzis/pyModeS (decoder for Mode S / ADS-B messages). Your job: write ONE realistic, subtle change ("seeded defect") to the library that BREAKS the semantic property below while the library still imports and its existing test suite still passes, plus a small demonstration program that exposes the breakage.

Your private scratch git worktree of the library: {wt}   (work ONLY there; never touch /repo or /verif; do not read anything under /verif; do not commit)
Write your deliverables to: {out}/

THE PROPERTY (id {pid}) -- "{title}":
{statement}

Where it lives (anchors): {anchors}

Requirements for the change:
1. It must look like something a maintainer could plausibly write (a refactor, optimisation, tidy-up, added feature, guard, "simplification") -- not sabotage, no dead giveaways in comments.
2. The existing tests must still pass with it:  cd {wt} && PYTHONPATH={wt}/src /venv/bin/python -m pytest -q -p no:cacheprovider tests/test_adsb.py tests/test_allcall.py tests/test_bds_inference.py tests/test_commb.py tests/test_py_common.py tests/test_surv.py   (36 tests must pass; run it). Note: the Cython extension is NOT compiled in this environment (Cython is not installed), the package uses py_common.py; if you change py_common.py behaviour for a function that has a twin in c_common.pyx, mirror the change there in plain Cython syntax using only constructs already used in that file.
3. It must break the property only under SPECIFIC circumstances, not on ordinary use: a particular unusual-but-legal input value or input class, a particular sequence of calls / history / interleaving of events, two cooperating sites that each look fine alone, a boundary value, a particular combination of fields. A change that any ordinary call exposes at once is not wanted.
4. FOCUS this time on: {focus}
5. Use a DIFFERENT mechanism and a different code site / trigger from these changes that were already tried for this property (do not repeat them or near-variants):
{avoidlist}
   Module-level caches / memoisation / lru_cache tricks have been used a lot already; do not use them.
6. The breakage must be a real violation of the property statement as written (read it carefully; stay inside its premises -- e.g. well-formed frames, stated ranges, documented argument types). Do not rely on behaviour the property does not constrain, and do not rely on an ambiguous reading of the statement: the unchanged library must clearly satisfy the requirement you break.

Deliverables in {out}/ :
 - patch.diff : output of `git -C {wt} diff` (unified diff against HEAD, applies with `git apply` at the repo root). Only files under src/ may change.
 - demo.py : a standalone program (run as `PYTHONPATH=<tree>/src /venv/bin/python demo.py`, it must `import pyModeS` normally and NOT hard-code the tree path) that exits 0 on the unchanged library and exits non-zero (assert / sys.exit(1)) with your change. It should build its inputs explicitly (hex frames / sample buffers / byte streams constructed in the script) and compare against the value the property demands, with a short comment on why that value is right.
 - meta.json : {{"property": "{pid}", "summary": "<what was changed, 1-3 sentences>", "needs": "<exactly what is needed for the defect to manifest, and what hides it>", "files": ["src/..."]}}

Before finishing, verify yourself: (a) the 36 tests pass with the change; (b) `PYTHONPATH=/repo/src /venv/bin/python {out}/demo.py` exits 0 (unchanged library at /repo/src -- read-only use is fine); (c) `PYTHONPATH={wt}/src /venv/bin/python {out}/demo.py` exits non-zero. Then report in 5 lines what you changed and what triggers it. Leave the worktree with your change applied (uncommitted).'''
os.makedirs('/tmp/wt', exist_ok=True)
for a in sys.argv[2:]:
    pid, _, focus = a.partition('=')
    wt, out = '/tmp/wt/%s-%s' % (pid, tag), '/tmp/wt/%s-%s-out' % (pid, tag)
    if not os.path.isdir(wt):
        subprocess.check_call(['git', '-C', '/repo', 'worktree', 'add', '--detach', '-q', wt, 'HEAD'])
    os.makedirs(out, exist_ok=True)
    d = props[pid]
    s = T.format(wt=wt, out=out, pid=pid, title=d['title'], statement=d['statement'], anchors=json.dumps(d['anchors']),
                 focus=focus or 'any part of the property not attacked yet',
                 avoidlist='\n'.join('   - ' + x for x in avoid.get(pid, [])))
    if pid == 'C15':
        s += ('\n\nExtra note for this property: because Cython cannot be compiled here, a change to src/pyModeS/c_common.pyx cannot be executed directly. '
              'Either (a) change c_common.pyx (valid Cython) and have demo.py read the .pyx source next to pyModeS/__init__.py, transliterate the affected '
              'function body into Python faithfully (typed locals, C integer casts/truncation) and compare it with py_common; or (b) change py_common.py so '
              'that it diverges from the unchanged Cython twin on a narrow class of well-formed inputs the library actually uses.')
    open('/tmp/wt/%s-%s.prompt' % (pid, tag), 'w').write(s)
    print(pid, wt)
