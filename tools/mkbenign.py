#!/usr/bin/env python3
"""tools/mkbenign.py <wave-tag> <PID>=<focus text> ... : scratch worktree + instructions for an independent sub-agent that
writes two BEHAVIOUR-PRESERVING changes for a property (false-alarm probes).  The agent sees only the property text."""
import json, os, subprocess, sys
tag = sys.argv[1]
props = {}
for l in open('/verif/properties.jsonl'):
    d = json.loads(l); props[d['id']] = d
T = '''You are helping evaluate a verification harness for the open-source Python library junzis/pyModeS (decoder for Mode S / ADS-B messages). Your job: write TWO realistic changes to the library that KEEP the semantic property below TRUE for every input, history and thread schedule, although they restructure the code the property is anchored in substantially. They are used to find out whether the harness raises false alarms.

Your private scratch git worktree of the library: {wt}   (work ONLY there; never touch /repo or /verif; do not read anything under /verif; do not commit)
Write your deliverables to: {out}/

THE PROPERTY (id {pid}) -- "{title}":
{statement}

Where it lives (anchors): {anchors}

Requirements:
1. Each change is something a maintainer could plausibly merge: a deep refactor, an optimisation, a new internal helper, caching done RIGHT, a tidy-up, or a change of behaviour ONLY where the property statement is silent (inputs outside its premises, values it does not constrain, error messages, logging, extra attributes, extra optional parameters with defaults).
2. FOCUS: {focus}
3. The property must remain true with each change: same results for every input inside the premises, no dependence on call history, safe when the decoders are called concurrently from several threads (per-call state in locals / threading.local / under a lock, never in unprotected module-level or shared objects).
4. The existing tests must still pass:  cd {wt} && PYTHONPATH={wt}/src /venv/bin/python -m pytest -q -p no:cacheprovider tests/test_adsb.py tests/test_allcall.py tests/test_bds_inference.py tests/test_commb.py tests/test_py_common.py tests/test_surv.py   (36 tests). Cython is NOT available; the package uses py_common.py. If you change behaviour of a py_common function that has a twin in c_common.pyx, mirror it there (plain Cython, constructs already used in that file); pure refactors of py_common that keep results identical need no mirror.
5. The two changes must be independent alternatives (each a diff against the unchanged HEAD), different in kind from each other.

Deliverables in {out}/ :
 - benign1.diff, benign2.diff : each the output of `git -C {wt} diff` for that change alone (reset the worktree with `git -C {wt} checkout -- .` between them). Only files under src/ may change.
 - selfcheck1.py, selfcheck2.py : differential self-checks you ran (import the changed tree and the unchanged tree at /repo/src in two subprocesses, compare results over a few thousand varied inputs inside the property's premises, including call sequences; print the number of comparisons).
 - meta.json : {{"property": "{pid}", "b1": "<what change 1 does and why the property still holds>", "b2": "<same for change 2>"}}

Verify that each diff applies with `git apply` to a clean tree and that the 36 tests pass with each. Report in 5 lines. Keep every message you write short; write files with tools rather than printing them.'''
os.makedirs('/tmp/wt', exist_ok=True)
for a in sys.argv[2:]:
    pid, _, focus = a.partition('=')
    wt, out = '/tmp/wt/%s-%s' % (pid, tag), '/tmp/wt/%s-%s-out' % (pid, tag)
    if not os.path.isdir(wt):
        subprocess.check_call(['git', '-C', '/repo', 'worktree', 'add', '--detach', '-q', wt, 'HEAD'])
    os.makedirs(out, exist_ok=True)
    d = props[pid]
    s = T.format(wt=wt, out=out, pid=pid, title=d['title'], statement=d['statement'], anchors=json.dumps(d['anchors']),
                 focus=focus or 'any deep refactor of the anchored mechanism')
    open('/tmp/wt/%s-%s.prompt' % (pid, tag), 'w').write(s)
    print(pid, wt)
