"""C15 - the Cython common module is observationally equivalent to the Python one.

Model: engine/pyxsim.py translates the *current* c_common.pyx into an executable model with C integer
semantics (Cython itself is not installed).  Part A compares every shared function with py_common on its
domain; Part B runs the whole decoder library on the model (configuration C) and on py_common
(configuration P) over a frame corpus and diffs every result; Part C (conformance of the model) compiles the
generated c_common.c that may lie next to the .pyx, finds the .pyx revision it was generated from, and
checks model(revision) == compiled extension on the Part A corpora.
"""
import itertools
import math
import os
import shutil

from engine import loader, pyxext, pyxsim
from engine.runner import Acc
from engine.util import call, chunks
from spec import cpr as C
from spec import crc as R
from spec import frames as F

LEVEL = "model_checking"
RULE = ("A: every function exported by both modules on its domain - all hex strings of length <= 3 in both cases and all "
        "bit strings of length <= 12 (+ structured up to 56 bits) for the converters, DF x TC x length for df/typecode, "
        "weight<=2 frames and byte sweeps for crc (both encode modes), the C02 address corpus for icao, floor around "
        "integers, cprNL on a grid + every float near the breakpoints, all 8192 13-bit codes for squawk/altitude (all "
        "DF carriers for idcode/altcode), all 2048 Gray codes, data/allzeros/wrongstatus on payload alphabets x every "
        "(status, msb, lsb) triple the library uses, is_icao_assigned at every block boundary +-1, every sequence of <= 3 calls over the frame-level functions on one frame string; B: ~130 public "
        "decoders on a DF x TC x subtype x length x payload corpus + the repository's sample CSVs under both "
        "configurations; distinct = distinct (function, argument) pairs")
ASSUMPTIONS = [
    "the model keeps C integer wrap-around, char/str coercions, typed memoryviews and cdef visibility; Python-object to "
    "C-integer OverflowError is not modelled (no call site can reach it with well-formed input)",
    "sentinels: typecode -1 ~ None; altitude/altcode -999999 and -1 ~ None; gray2alt -1 ~ None",
    "cprNL may differ between the modules only within 1e-9 deg of one of the 57 irrational transition latitudes (both neighbours admissible, C06; libm vs numpy rounding); around 0 and 87 the two must agree float by float",
    "well-formed input only: hex/binary digit strings, frames of 14/28 hex digits (bin2int/hex2int beyond 63 bits wrap in C "
    "and are outside every decoder's use: at most 56 bits are ever passed)",
    "conformance (Part C) needs the git-ignored c_common.c next to the .pyx; when it is absent or matches no revision of "
    "the .pyx the model is not cross-checked and traces_validated_against_impl is 0",
]

pmsP = loader.load("P")
from pyModeS import py_common as PC  # noqa: E402
SIM = pyxsim.build(os.path.join(loader.SRC, "pyModeS", "c_common.pyx"))
SHARED = [n for n in SIM.__pyxsim_exported__ if hasattr(PC, n)]
SENT = {"typecode": {-1}, "altitude": {-999999, -1}, "altcode": {-999999, -1}, "gray2alt": {-1}}


def norm(fname, r):
    if r[0] == "ok" and fname in SENT and r[1] in SENT[fname]:
        return ("ok", None)
    if r[0] == "ok" and isinstance(r[1], float) and r[1] == int(r[1]):
        return ("ok", int(r[1]))
    return r


def judgeA(fname, args, other=None):
    a = norm(fname, call(getattr(PC, fname), *args))
    b = norm(fname, call(getattr(other or SIM, fname), *args))
    if a == b:
        return None
    if (fname == "cprNL" and a[0] == b[0] == "ok" and {a[1], b[1]} <= C.NL_set(args[0])
            and any(abs(abs(args[0]) - t) <= C.EPS for nl, t in C.TRANS.items() if nl != 2)):
        return None     # within 1e-9 deg of one of the 57 irrational transitions either neighbour is admissible (libm vs
        #                 numpy rounding); 0 and 87 are exactly representable and both modules branch on them: equal there
    if fname in ("bin2int", "hex2int") and a[0] == b[0] == "ok" and len(args[0]) * (1 if fname == "bin2int" else 4) > 63:
        return "%s:wraps_beyond_63_bits" % fname
    if a[0] == "exc" and b[0] == "exc":
        if "RuntimeError" in (a[1], b[1]):
            return "%s:different_exception" % fname
        return None     # both reject malformed input, the type of a non-RuntimeError is not part of the contract
    if a[0] != b[0]:
        return "%s:one_raises_%s" % (fname, (a if a[0] == "exc" else b)[1])
    return "%s:different_value" % fname


def judgeC(fname, args, simold, ext):
    a = norm(fname, call(getattr(simold, fname), *args))
    b = norm(fname, call(getattr(ext, fname), *args))
    if a == b or (a[0] == "exc" and b[0] == "exc"):
        return None
    return "conformance:%s:model_differs_from_compiled_extension" % fname


HEX = "0123456789abcdefABCDEF"


def corpusA(part, seed=0):
    """yields (fname, args)."""
    if part == "conv":
        for n in (1, 2, 3):
            for t in itertools.product(HEX, repeat=n):
                s = "".join(t)
                yield "hex2bin", (s,)
                yield "hex2int", (s,)
        for n in range(1, 13):
            for v in range(1 << n):
                s = format(v, "0%db" % n)
                yield "bin2int", (s,)
                yield "bin2hex", (s,)
        for h in ("FFFFFFFFFFFFFFFF", "8000000000000000", "8D406B902015A678D4D220AA4BDA"):
            yield "hex2int", (h,)
            yield "bin2int", (format(int(h, 16), "0%db" % (4 * len(h))),)
        # whole frames as bit strings: the demodulator (extra/rtlreader.py) hands complete 56- and 112-bit bit strings to
        # bin2hex, the decoders hand complete frames to hex2bin (bin2int / hex2int beyond 63 bits: known finding, not here)
        for nb in (57, 63, 64, 65, 88, 111, 112, 113):
            for v in (0, (1 << nb) - 1, 1 << (nb - 1), (1 << (nb - 1)) - 1, int("A5" * 15, 16) & ((1 << nb) - 1), int("8D406B902015A678D4D220AA4BDA", 16) & ((1 << nb) - 1), 1):
                s = format(v, "0%db" % nb)
                yield "bin2hex", (s,)
                if nb % 4 == 0:
                    h = "%0*X" % (nb // 4, v)
                    yield "hex2bin", (h,)
                    yield "hex2bin", (h.lower(),)
        for nb in (13, 17, 24, 32, 48, 56):
            for v in (0, (1 << nb) - 1, 1 << (nb - 1), int("A5" * 7, 16) & ((1 << nb) - 1)):
                s = format(v, "0%db" % nb)
                yield "bin2int", (s,)
                yield "bin2hex", (s,)
                h = "%0*X" % ((nb + 3) // 4, v)
                yield "hex2int", (h,)
                yield "hex2bin", (h,)
                yield "hex2bin", (h.lower(),)
    elif part == "dftc":
        for n in (56, 112):
            for df in range(32):
                for tc in range(32):
                    for low in (0, (1 << (n - 37)) - 1):
                        v = (df << (n - 5)) | (0x2AAAAAA << (n - 32)) | (tc << (n - 37)) | low
                        m = F.hexn(v, n)
                        for mm in (m, m.lower()):
                            yield "df", (mm,)
                            yield "typecode", (mm,)
                            yield "data", (mm,)
                            yield "allzeros", (mm,)
    elif part == "crc":
        for n in (56, 112):
            fr = [0] + [1 << i for i in range(n)] + [(1 << i) | (1 << j) for i in range(n) for j in range(i + 1, n, 3)]
            nb = n // 8
            fr += [v << (8 * p) for p in range(nb) for v in range(1, 256, 2)]
            fr += [R.downlink(0x5D484F if n == 56 else int("8D406B902015A678D4D220", 16), n)]
            for v in fr:
                m = F.hexn(v, n)
                yield "crc", (m,)
                yield "crc", (m, True)
                yield "crc", (m.lower(), False)
    elif part == "icao":
        import checks.c02 as c02
        for addr in c02.addresses(seed, 6)[:40]:
            for df in range(32):
                for n in (56, 112):
                    if df in c02.AA_DF and n != c02.NATURAL[df]:
                        continue
                    if df in c02.AA_DF or df in c02.AP_DF:
                        m = c02.build(df, n, addr, 0x155555, 5 if df == 11 else 0)
                    else:
                        m = F.raw(n, df, addr)
                    for cs in "Ulm":
                        yield "icao", (F.with_case(m, cs),)
    elif part == "floor":
        for k in range(-70, 71):
            for d in (0.0, 1e-12, 0.5, 1 - 1e-12, -1e-12, 0.25):
                yield "floor", (k + d,)
        for yz0 in range(0, 131072, 4099):
            for yz1 in range(0, 131072, 5003):
                yield "floor", (59 * yz0 / 131072 - 60 * yz1 / 131072 + 0.5,)
    elif part == "cprNL":
        import checks.c06 as c06
        for lat in c06.n1_points():
            yield "cprNL", (lat,)
        for k in range(-180000, 180001, 13):
            yield "cprNL", (k * 0.0005,)
    elif part == "codes":
        for code in range(8192):
            s = format(code, "013b")
            yield "squawk", (s,)
            yield "altitude", (s,)
            for df in (0, 4, 5, 16, 20, 21, 11, 17):
                n = 56 if df in (0, 4, 5, 11) else 112
                rest = (0x1555 << 13) | code
                m = F.hexn(((df << 27) | rest) << (n - 32) | (0xABCDEF if n == 56 else 0x123456789ABCDEF00FF), n)
                if code % 8 == df % 8 or df in (4, 5, 20, 21):
                    yield "altcode", (m,)
                    yield "idcode", (m,)
        for g in range(2048):
            yield "gray2alt", (format(g, "011b"),)
        for bad in ("0" * 12, "1" * 14, ""):
            yield "squawk", (bad,)
            yield "altitude", (bad,)
        # 13 characters that are not 13 bits: both modules document a RuntimeError for anything but a 13-bit binary string
        # (strings int(s, 2) would swallow: sign, blank, newline, underscore, 0b prefix - and plain wrong digits)
        base = "0101001100001"
        for ch in ("\n", " ", "+", "-", "_", "b", "2", "x", "\t", "１"):
            for pos in (0, 1, 6, 11, 12):
                bad = base[:pos] + ch + base[pos + 1:]
                yield "squawk", (bad,)
                yield "altitude", (bad,)
    elif part == "status":
        triples = [(1, 2, 13), (14, 15, 26), (27, 28, 39), (48, 49, 51), (54, 55, 56), (1, 2, 11), (1, 3, 11), (12, 13, 23),
                   (24, 25, 34), (35, 36, 45), (46, 47, 56), (1, 2, 12), (13, 14, 23), (5, 6, 23), (35, 36, 46), (47, 48, 49),
                   (50, 51, 56), (1, 2, 3), (4, 5, 6), (7, 8, 9), (10, 11, 12), (13, 14, 15), (16, 17, 26), (27, 28, 38),
                   (39, 40, 51), (1, 3, 12), (24, 25, 33), (34, 35, 46), (47, 49, 56)]
        pays = [0, (1 << 56) - 1, 0x55555555555555, 0xAAAAAAAAAAAAAA] + [1 << i for i in range(56)]
        for mb in pays:
            d = format(mb, "056b")
            for t in triples:
                yield "wrongstatus", (d,) + t
    elif part == "seq":
        # call sequences on one frame string: every sequence of <= 3 calls over the frame-level shared functions, the
        # sequences concatenated in one process; py_common and the model are advanced in lockstep by judgeA
        frames = ["A0001839CA3800315800007448D9", "8D406B902015A678D4D220AA4BDA", "5D484FDEA248F5", "20001718029FCD",
                  "A800292DFFBBA9383FFCEB903D01", "02E19718EA9C4B"]
        ops = [("crc", ()), ("crc", (True,)), ("icao", ()), ("df", ()), ("typecode", ()), ("altcode", ()), ("idcode", ()), ("allzeros", ())]
        for m in frames:
            for L in (1, 2, 3):
                for seq in itertools.product(range(len(ops)), repeat=L):
                    for oi in seq:
                        yield ops[oi][0], (m,) + ops[oi][1]
    elif part == "assigned":
        edges = [0x200000, 0x27FFFF, 0x280000, 0x28FFFF, 0x500000, 0x5FFFFF, 0x600000, 0x67FFFF, 0x680000, 0x6F0000,
                 0x900000, 0x9FFFFF, 0xB00000, 0xBFFFFF, 0xD00000, 0xDFFFFF, 0xF00000, 0xFFFFFF, 0, 0x406B90]
        for e in edges:
            for d in (-1, 0, 1):
                v = e + d
                if 0 <= v <= 0xFFFFFF:
                    yield "is_icao_assigned", ("%06X" % v,)
                    yield "is_icao_assigned", ("%06x" % v,)
        for x in (None, "", "ABCDE", "ABCDEF0"):
            yield "is_icao_assigned", (x,)


PARTS = ["conv", "dftc", "crc", "icao", "floor", "cprNL", "codes", "status", "assigned", "seq"]


def w_partA(arg):
    part, seed, lo, step = arg
    acc = Acc()
    acc.cov["states"] = 0
    acc.cov["transitions"] = 0
    for i, (fname, args) in enumerate(corpusA(part, seed)):
        if (i // 256) % step != lo:          # contiguous blocks: consecutive corpus items stay in one process, in order
            continue
        if fname not in SHARED:
            continue
        acc.n += 1
        acc.cov["transitions"] += 1
        s = judgeA(fname, args)
        if s:
            acc.bad(s, {"kind": "A", "fn": fname, "args": list(args)})
        acc.out.add((fname,) + tuple(args))
    acc.cov["states"] = len(acc.out)
    return acc.res()


# ------------------------------------------------------------------ part B: whole library under both configurations
def corpusB(thorough):
    import checks.c14 as c14
    frames = []
    pays = [0, (1 << 48) - 1, 0x555555555555, 0xAAAAAAAAAAAA, 0x123456789ABC]
    k = 0
    for n in (112, 56):
        for df in range(32):
            for tc in range(32):
                for st in range(8):
                    k += 1
                    if not thorough and k % 6:
                        continue
                    frames.append(c14.frame(n, df, tc, st, pays[k % 5], [0, 0x7FFFFFF, 0x2AAAAAA, 0x1838][k % 4]))
    from spec import commb_fields as CF
    for ac in (0, 0x0008, 0x0001, 0x1838, 0x0AAA):
        for mb in (CF.bds60(), CF.bds60(ias=(1, 0, 280), mach=(1, 0, 200)), CF.bds50(), CF.bds40()):
            for df in (20, 21):
                frames.append(F.long_ap(df, ac, mb, 0x406B90))
    for fn in ("sample_data_adsb.csv", "sample_data_commb_df20.csv", "sample_data_commb_df21.csv"):
        p = os.path.join(loader.REPO, "tests", "data", fn)
        if os.path.exists(p):
            with open(p) as f:
                rows = [ln.strip().split(",") for ln in f if ln.strip()]
            msgs = [r[1] for r in rows if len(r) > 1 and len(r[1]) in (14, 28)]
            frames += msgs[:: (1 if thorough else 8)]
    return frames


def eval_config(arg):
    """runs in a worker: load the configuration fresh, evaluate every table function on the frames."""
    cfg, frames = arg
    pms = loader.load(cfg)
    import importlib
    import checks.c14 as c14
    c14 = importlib.reload(c14) if c14.pms is not pms else c14
    c14.pms = pms
    import pyModeS.decoder.bds.bds53 as b53
    c14.bds53 = b53
    tab = c14.table()
    out = []
    for msg in frames:
        for name, f, extras, kind, guard in tab:
            if name.startswith("common."):
                continue
            for extra in extras[:1]:
                r = call(f, msg, *extra)
                out.append(repr(r))
    # pair decoders on a few real pairs
    return out, [t[0] for t in tab if not t[0].startswith("common.")]


def w_partB(arg):
    frames = arg
    acc = Acc()
    ra, names = eval_config(("P", frames))
    rb, names2 = eval_config(("C", frames))
    i = 0
    for msg in frames:
        for name in names:
            acc.n += 1
            if ra[i] != rb[i]:
                a, b = ra[i], rb[i]
                sig = "decoder:%s:differs_between_py_common_and_c_common" % name
                if ("None" in a) != ("None" in b) and ("-999999" in b or "-1)" in b or "-1," in b):
                    sig = "decoder:%s:sentinel_leaks_to_decoder_result" % name
                acc.bad(sig, {"kind": "B", "name": name, "msg": msg, "P": a, "C": b})
            i += 1
        acc.out.add(("B", msg))
    acc.c["partB_calls"] = acc.n
    return acc.res()


def w_partC(arg):
    """conformance of the translator: model(pyx revision the .c was generated from) vs compiled extension."""
    part, = arg
    acc = Acc()
    src = pyxext.find_source(loader.REPO)
    if src is None:
        acc.cov["conformance"] = "no generated c_common.c matching a revision of c_common.pyx: model not cross-checked"
        return acc.res()
    try:
        ext, scratch = pyxext.compile_ext(loader.REPO)
    except Exception as e:  # noqa: BLE001
        acc.cov["conformance"] = "c_common.c could not be compiled (%s): model not cross-checked" % type(e).__name__
        return acc.res()
    try:
        simold = pyxsim.build("<%s>" % src[0], text=src[1])
        n = 0
        for p in PARTS:
            for i, (fname, args) in enumerate(corpusA(p, 0)):
                if p in ("conv", "status", "crc") and (i // 64) % 3:
                    continue
                if not hasattr(ext, fname):
                    continue
                n += 1
                s = judgeC(fname, args, simold, ext)
                if s:
                    acc.bad(s, {"kind": "C", "fn": fname, "args": list(args), "revision": src[0]})
        acc.cov["traces_validated_against_impl"] = n
        acc.cov["conformance"] = "model of c_common.pyx (%s) == compiled extension on %d calls" % (src[0], n)
        acc.n += n
    finally:
        shutil.rmtree(scratch, ignore_errors=True)
    return acc.res()


def w_any(t):
    return {"A": w_partA, "B": w_partB, "C": w_partC}[t[0]](t[1])


def run(ctx):
    ctx.cov["states"] = 0
    ctx.cov["transitions"] = 0
    ctx.cov["traces_validated_against_impl"] = 0
    tasks = [("C", ("all",))]
    step = 4
    for p in PARTS:
        tasks += [("A", (p, ctx.seed, lo, step)) for lo in range(step)]
    fr = corpusB(ctx.thorough)
    tasks += [("B", c) for c in chunks(fr, 120)]
    ctx.pmap(w_any, tasks)
    ctx.cov["shared_functions"] = SHARED
    ctx.cov["partB_frames"] = len(fr)
    ctx.cov["exhaustive"] = True
    ctx.cov["explanation"] = ("states = distinct (function, argument) pairs evaluated on the model; transitions = model "
                              "evaluations; traces validated = calls on which the model was compared with the compiled extension")
    ctx.samples.append({"fn": "crc", "args": ["8D406B902015A678D4D220AA4BDA"], "py": PC.crc("8D406B902015A678D4D220AA4BDA"),
                        "model": SIM.crc("8D406B902015A678D4D220AA4BDA")})


def replay(case):
    if case["kind"] == "A":
        args = tuple(case["args"])
        s = judgeA(case["fn"], args)
        return [(s, case)] if s else []
    if case["kind"] == "B":
        r = w_partB([case["msg"]])
        return [(s, c) for s, c in r["viols"]]
    return w_partC(("all",))["viols"]
