"""C11 - Comm-B register fields decode to the encoded engineering values."""
import itertools

from engine import loader
from engine.runner import Acc
from engine.util import call, chunks, feq, other_bits, vary_case
from spec import commb_fields as CF
from spec import frames as F

LEVEL = "exploration"
RULE = ("for every field row (31 rows of BDS 4,0 4,4 4,5 5,0 5,3 6,0 incl. the deprecated alt40mcp/alt40fms aliases): all raw values (<= 2^12) x status x sign under "
        "backgrounds {zeros, every other MB bit set, 0x55/0xAA, seeded} in DF20 and DF21 carriers (every second decode preceded by the receiver pipeline df/icao/typecode/infer on the same frame), plus bg-1 (every "
        "other MB, header and parity bit) on a 16-value subset (all values in thorough); wind44/temp44 tuples, cap17 all "
        "24 single capability bits + patterns, ovc10; identity of the pyModeS.commb re-exports; distinct = (field, "
        "status, sign, raw)")
ASSUMPTIONS = [
    "layouts from ICAO Doc 9871 Table A-2-x as restated in spec/commb_fields.py; medium-confidence rows (4,4 4,5 5,3) "
    "are additionally cross-checked against the repository's own test vectors before they judge",
    "value = (two's complement | unsigned) x LSB + offset, angles wrapped to [0,360); None iff status clear; temp44/temp45 unconditional",
]

pms = loader.load("P")
import pyModeS.decoder.bds.bds53 as bds53  # noqa: E402

ONES = (1 << 56) - 1


def fn_of(row):
    return getattr(bds53, row.name) if row.mod == "bds53" else getattr(pms.commb, row.name)


def carrier(mb, k):
    df = 20 + k % 2
    h27 = [0x0001838, 0x7FFFFFF, 0x2A5A5A5][k % 3]
    return F.long_ap(df, h27, mb, [0x406B90, 0xFFFFFF, 0][k % 3])


def judge_row(name, st, sg, raw, msg, pipeline=False):
    row = CF.BY_NAME[name]
    exp = row.expected(st, sg, raw)
    if pipeline:
        # what a receiver loop does with a frame before it reaches a field decoder (shared helpers, possible caches)
        call(pms.df, msg)
        call(pms.icao, msg)
        call(pms.common.typecode, msg)
        call(pms.bds.infer, msg, True)
    r = call(fn_of(row), msg)
    if r[0] != "ok":
        return "%s:raises:%s" % (name, r[1])
    got = r[1]
    if exp is None:
        return None if got is None else "%s:status_clear_but_value_returned" % name
    if got is None:
        return "%s:None_with_status_set" % name
    if isinstance(got, (tuple, list, str, bool)) or not feq(float(got), exp, 1e-12, 1e-9):
        cls = "sign_set" if (row.sign is not None and sg) else "unsigned_or_positive"
        return "%s:wrong_value:%s" % (name, cls)
    return None


def w_row(arg):
    name, raws, bgs, bg1 = arg
    row = CF.BY_NAME[name]
    acc = Acc()
    fbits = row.bits()
    fmask = 0
    for b in fbits:
        fmask |= 1 << (56 - b)
    k = 0
    if bgs:
        bgs = list(bgs) + [typical_bg(row.reg)]        # the exhaustive sweep also inside a plausible report of the register
    for raw in raws:
        for st in ((0, 1) if row.status is not None else (1,)):
            for sg in ((0, 1) if row.sign is not None else (0,)):
                mb0 = row.place(st, sg, raw)
                for bg in bgs:
                    k += 1
                    msg = vary_case(carrier(mb0 | (bg & ~fmask & ONES), k), k // 2)
                    acc.n += 1
                    pl = bool(k % 2)
                    s = judge_row(name, st, sg, raw, msg, pl)
                    if s:
                        acc.bad(s + (":after_df_icao_infer" if pl else ""), {"kind": "row", "name": name, "f": [st, sg, raw], "msg": msg, "pipeline": pl})
                if bg1:
                    base = int(carrier(mb0, 0), 16)
                    for mask in other_bits(112, list(range(1, 6)) + [32 + b for b in fbits]):
                        msg = F.hexn(base ^ mask, 112)
                        acc.n += 1
                        s = judge_row(name, st, sg, raw, msg)
                        if s:
                            acc.bad(s + ":bg1", {"kind": "row", "name": name, "f": [st, sg, raw], "msg": msg})
                acc.out.add((name, st, sg, raw))
    return acc.res()


def judge_misc(kind, p):
    if kind == "wind44":
        st, spd, dr, msg = p
        r = call(pms.commb.wind44, msg)
        exp = (None, None) if not st else (spd, dr * 180.0 / 256)
        if r[0] != "ok" or not isinstance(r[1], tuple) or len(r[1]) != 2:
            return "wind44:raises_or_shape"
        if exp[0] is None:
            return None if r[1] == (None, None) else "wind44:status_clear_but_value_returned"
        return None if (r[1][0] == exp[0] and r[1][1] is not None and feq(r[1][1], exp[1], 1e-12, 1e-9)) else "wind44:wrong_value"
    if kind == "temp44":
        sg, raw, msg = p
        v = raw - 1024 if sg else raw
        r = call(pms.commb.temp44, msg)
        if r[0] != "ok" or not isinstance(r[1], tuple) or len(r[1]) != 2:
            return "temp44:raises_or_shape"
        return None if feq(r[1][0], v * 0.25, 1e-12, 1e-9) and feq(r[1][1], v * 0.125, 1e-12, 1e-9) else "temp44:wrong_value"
    if kind == "cap17":
        from engine.util import scribble
        bits24, msg = p
        exp = ["BDS" + CF.CAP17[i] for i in range(24) if (bits24 >> (23 - i)) & 1]
        r = call(pms.commb.cap17, msg)
        if r != ("ok", exp):
            return "cap17:wrong_register_list"
        scribble(r[1])                      # the caller filters / clears its list ...
        r2 = call(pms.commb.cap17, msg)     # ... the next answer must not be affected
        if r2 != ("ok", exp):
            return "cap17:result_shares_state_with_an_earlier_result"
        if bits24 & 0x020000 and call(pms.commb.is17, msg.upper()) != ("ok", (int(msg[14:22], 16) == 0)):
            return "is17:after_caller_modified_cap17_result"
        return None
    if kind == "ovc10":
        bit, msg = p
        r = call(pms.commb.ovc10, msg)
        return None if r == ("ok", bit) else "ovc10"
    if kind == "identity":
        name = p[0]
        import importlib
        for reg in ("10", "17", "20", "30", "40", "44", "45", "50", "60"):
            m = importlib.import_module("pyModeS.decoder.bds.bds" + reg)
            if hasattr(m, name):
                return None if getattr(pms.commb, name) is getattr(m, name) else "commb:reexport_is_a_different_function:" + name
        return "commb:reexport_missing_origin:" + name
    if kind == "vector":
        name, msg, exp = p
        f = getattr(bds53, name) if hasattr(bds53, name) and not hasattr(pms.commb, name) else getattr(pms.commb, name)
        r = call(f, msg)
        ok = r[0] == "ok" and (r[1] == exp or (isinstance(exp, float) and r[1] is not None and abs(r[1] - exp) < 0.01)
                               or (isinstance(exp, tuple) and isinstance(r[1], tuple) and all(feq(a, b, 1e-9, 1e-9) for a, b in zip(r[1], exp))))
        return None if ok else "vector:%s" % name
    raise ValueError(kind)


# the repository's own vectors (tests/test_commb.py) replayed against the reference rows
def repo_vectors():
    out = []
    v = [("selalt40mcp", "A000029C85E42F313000007047D3", 3008), ("selalt40fms", "A000029C85E42F313000007047D3", 3008),
         ("p40baro", "A000029C85E42F313000007047D3", 1020.0),
         ("roll50", "A000139381951536E024D4CCF6B5", 2.1), ("trk50", "A000139381951536E024D4CCF6B5", 114.258),
         ("gs50", "A000139381951536E024D4CCF6B5", 438), ("rtrk50", "A000139381951536E024D4CCF6B5", 0.125),
         ("tas50", "A000139381951536E024D4CCF6B5", 424), ("hdg60", "A00004128F39F91A7E27C46ADC21", 42.71484375),
         ("ias60", "A00004128F39F91A7E27C46ADC21", 252), ("mach60", "A00004128F39F91A7E27C46ADC21", 0.42),
         ("vr60baro", "A00004128F39F91A7E27C46ADC21", -1920), ("vr60ins", "A00004128F39F91A7E27C46ADC21", -1920)]
    return v


def w_misc(arg):
    seed = arg
    acc = Acc()

    def do(kind, p):
        acc.n += 1
        s = judge_misc(kind, p)
        if s:
            acc.bad(s, {"kind": "misc", "sub": kind, "p": list(p)})
    bgs = [0, ONES, 0x55555555555555, 0xAAAAAAAAAAAAAA]
    typ = typical_bg("44")
    for sg in (0, 1):
        for raw in range(1024):
            keep = sum(1 << (56 - b) for b in range(24, 35))
            do("temp44", (sg, raw, carrier((sg << 32) | (raw << 22) | (typ & ~keep & ONES), raw)))
    for st in (0, 1):
        for spd in range(0, 512, 3):
            for dr in (0, 171, 511):
                keep = sum(1 << (56 - b) for b in range(5, 24))
                do("wind44", (st, spd, dr, carrier((st << 51) | (spd << 42) | (dr << 33) | (typ & ~keep & ONES), spd)))
    k = 0
    for st in (0, 1):
        for spd in list(range(0, 512, 7)) + [511, 1, 255, 256]:
            for dr in list(range(0, 512, 5)) + [511, 1, 255, 256]:
                k += 1
                keep = sum(1 << (56 - b) for b in range(5, 24))
                mb = (st << 51) | (spd << 42) | (dr << 33) | (bgs[k % 4] & ~keep & ONES)
                do("wind44", (st, spd, dr, carrier(mb, k)))
                acc.out.add(("wind44", st, spd, dr))
    for sg in (0, 1):
        for raw in range(1024):
            k += 1
            keep = sum(1 << (56 - b) for b in range(24, 35))
            mb = (sg << 32) | (raw << 22) | (bgs[k % 4] & ~keep & ONES)
            do("temp44", (sg, raw, carrier(mb, k)))
            acc.out.add(("temp44", sg, raw))
    caps = [1 << i for i in range(24)] + [0, 0xFFFFFF, 0xA5A5A5, 0x5A5A5A, 0x020000 | 0x000100]
    for c in caps:
        for low in (0, (1 << 32) - 1, 0x12345678):
            k += 1
            do("cap17", (c, carrier((c << 32) | low, k)))
        acc.out.add(("cap17", c))
    for bit in (0, 1):
        for bg in bgs:
            k += 1
            mb = (bg & ~(1 << 41) & ONES) | (bit << 41)
            do("ovc10", (bit, carrier(mb, k)))
    covered = set(CF.BY_NAME) | {"wind44", "temp44", "cap17", "ovc10", "cs20"}
    for name in pms.commb.__all__:
        do("identity", (name,))
        acc.n += 1
        if not name.startswith("is") and name not in covered:
            acc.bad("oracle:exported_decoder_without_reference_row:%s" % name, {"kind": "misc", "sub": "identity", "p": [name]})
    for name, msg, exp in repo_vectors():
        do("vector", (name, msg, exp))
        # and the reference row must agree with the repository vector (guards the oracle itself)
        row = CF.BY_NAME.get(name)
        if row is not None:
            mbits = int(msg[8:22], 16)
            st = (mbits >> (56 - row.status)) & 1 if row.status else 1
            sg = (mbits >> (56 - row.sign)) & 1 if row.sign else 0
            raw = (mbits >> (56 - row.lsb)) & ((1 << row.nbits) - 1)
            e = row.expected(st, sg, raw)
            acc.n += 1
            if e is None or abs(e - exp) > 0.01:
                acc.bad("oracle:reference_row_disagrees_with_repo_vector:%s" % name, {"kind": "misc", "sub": "vector", "p": [name, msg, exp]})
    return acc.res()


def specials(row):
    """(status, sign, raw) settings of one field that sit on its structural corners."""
    top = (1 << row.nbits) - 1
    msb = 1 << (row.nbits - 1)
    st_on = 1 if row.status is not None else 1
    out = [(0, 0, 0), (st_on, 0, 0), (st_on, 0, top), (st_on, 0, msb), (st_on, 0, 1), (0, 0, top)]
    if row.sign is not None:
        out += [(st_on, 1, 0), (st_on, 1, top), (st_on, 1, msb), (0, 1, 0)]
    if row.status is None:
        out = [x for x in out if x[0] == 1]
    return list(dict.fromkeys(out))


def w_pairs(reg):
    """joint conditions: for every ordered pair of fields (A judged, B other) of one register, every combination of
    their corner settings (zero, one, all ones, top bit only; status on / off; sign on / off), the remaining fields all
    zero or all ones: A's answer must be what A's own bits say."""
    acc = Acc()
    rows = [r for r in CF.ROWS if r.reg == reg and not r.name.startswith("alt40")]
    k = 0
    for a in rows:
        amask = 0
        for b_ in a.bits():
            amask |= 1 << (56 - b_)
        for b in rows:
            if b is a or (a.bits() & b.bits()):
                continue
            bmask = 0
            for b_ in b.bits():
                bmask |= 1 << (56 - b_)
            for sa in specials(a):
                for sb in specials(b):
                    for fill in (0, ONES):
                        k += 1
                        mb = a.place(*sa) | b.place(*sb) | (fill & ~amask & ~bmask & ONES)
                        msg = vary_case(carrier(mb, k), k // 2)
                        acc.n += 1
                        s = judge_row(a.name, sa[0], sa[1], sa[2], msg)
                        if s:
                            acc.bad(s + ":joint_with_%s" % b.name, {"kind": "row", "name": a.name, "f": list(sa), "msg": msg})
            # arithmetic relations between two fields of equal width: the whole diagonal (A == B), the anti-diagonal
            # (A + B == all ones) and the neighbours (A == B + 1)
            if a.nbits == b.nbits and a.nbits <= 12:
                top = (1 << a.nbits) - 1
                for v in range(top + 1):
                    for vb in (v, top - v, (v + 1) & top):
                        k += 1
                        sa = (1, 0, v)
                        mb = a.place(*sa) | b.place(1, 0, vb)
                        msg = vary_case(carrier(mb, k), k // 2)
                        acc.n += 1
                        s = judge_row(a.name, sa[0], sa[1], sa[2], msg)
                        if s:
                            acc.bad(s + ":joint_with_%s" % b.name, {"kind": "row", "name": a.name, "f": list(sa), "msg": msg})
            acc.out.add(("pair", a.name, b.name))
    return acc.res()


def groups_of(reg):
    """every bit of the register's MB assigned to a group: the decoded fields, the fields decoded by the tuple decoders
    (wind44 / temp44), and the remaining bit runs as unsigned pseudo-fields."""
    rows = [r for r in CF.ROWS if r.reg == reg and not r.name.startswith("alt40")]
    if reg == "44":
        rows += [CF.Row("44", "_wspd", 5, None, 6, 14, 1), CF.Row("44", "_wdir", None, None, 15, 23, 1), CF.Row("44", "_temp", None, 24, 25, 34, 1)]
    used = set()
    for r in rows:
        used |= r.bits()
    run = []
    for b in range(1, 58):
        if b <= 56 and b not in used:
            run.append(b)
        elif run:
            rows.append(CF.Row(reg, "_bits%d" % run[0], None, None, run[0], run[-1], 1))
            run = []
    return rows


def w_product(arg):
    """three-way and higher conditions: the judged field at its corner settings while EVERY other group of the register
    independently takes one of {absent / zero, present with a mid-range value, present with all ones} - the full product.
    Reaches conditions such as "source in 1..4 AND pressure available AND pressure mid-range" that neither corner pairs nor
    single-bit deviations contain."""
    reg, part = arg
    acc = Acc()
    grp = groups_of(reg)

    def three(r):
        top = (1 << r.nbits) - 1
        if r.name.startswith("_bits"):
            return [(1, 0, 0), (1, 0, 1), (1, 0, top)]          # an undecoded run (source / mode / reserved bits): 0, 1, all ones
        return [(0, 0, 0), (1, 0, top // 3 + 1), (1, 1 if r.sign is not None else 0, top)]
    k = 0
    judged = [g for g in grp if not g.name.startswith("_bits") and g.name != "_wdir"]
    for a in judged[part::2]:
        others = [g for g in grp if g is not a]
        aset = specials(a) + [(1, 0, ((1 << a.nbits) - 1) // 3 + 1)]
        for combo in itertools.product(*[three(o) for o in others]):
            base = 0
            for o, stg in zip(others, combo):
                base |= o.place(*stg)
            for sa in aset:
                k += 1
                mb = base | a.place(*sa)
                msg = vary_case(carrier(mb, k), k // 2)
                acc.n += 1
                if a.name == "_temp":
                    s = judge_misc("temp44", (sa[1], sa[2], msg))
                    case = {"kind": "misc", "sub": "temp44", "p": [sa[1], sa[2], msg]}
                elif a.name == "_wspd":
                    d_ = [c_ for o, c_ in zip(others, combo) if o.name == "_wdir"][0][2]
                    s = judge_misc("wind44", (sa[0], sa[2], d_, msg))
                    case = {"kind": "misc", "sub": "wind44", "p": [sa[0], sa[2], d_, msg]}
                else:
                    s = judge_row(a.name, sa[0], sa[1], sa[2], msg)
                    case = {"kind": "row", "name": a.name, "f": list(sa), "msg": msg}
                if s:
                    acc.bad(s + ":in_the_product_of_the_other_fields", case)
        acc.out.add(("product", reg, a.name))
    return acc.res()


def typical_bg(reg):
    """a plausible report: every field of the register present with a mid-range value, undecoded runs = 1."""
    mb = 0
    for g in groups_of(reg):
        top = (1 << g.nbits) - 1
        mb |= g.place(1, 0, 1 if g.name.startswith("_bits") else top // 3 + 1)
    return mb


def w_any(t):
    return {"r": w_row, "m": w_misc, "p": w_pairs, "x": w_product}[t[0]](t[1])


def run(ctx):
    import random
    rng = random.Random(ctx.seed)
    bgs = [0, ONES, 0x55555555555555, 0xAAAAAAAAAAAAAA, rng.getrandbits(56)]
    tasks = [("m", ctx.seed)] + [("p", reg) for reg in sorted({r.reg for r in CF.ROWS})]
    tasks += [("x", (reg, part)) for reg in sorted({r.reg for r in CF.ROWS}) for part in (0, 1)]
    for row in CF.ROWS:
        allraw = list(range(1 << row.nbits))
        sub = sorted(set([0, 1, 2, allraw[-1], allraw[-2], len(allraw) // 2, len(allraw) // 2 - 1] + allraw[::max(1, len(allraw) // 9)]))
        for c in chunks(allraw, 512):
            tasks.append(("r", (row.name, c, bgs, False)))
        for c in chunks(allraw if ctx.thorough else sub, 8):
            tasks.append(("r", (row.name, c, [], True)))
    ctx.pmap(w_any, tasks, ambient=True)
    ctx.cov["exhaustive"] = True
    ctx.cov["field_rows"] = len(CF.ROWS)
    ctx.samples.append({"field": "roll50", "status": 1, "sign": 1, "raw": 500, "expected": CF.BY_NAME["roll50"].expected(1, 1, 500),
                        "msg": carrier(CF.BY_NAME["roll50"].place(1, 1, 500), 0)})


def replay(case):
    if case["kind"] == "row":
        s = judge_row(case["name"], *case["f"], case["msg"], case.get("pipeline", False))
        return ([(s, case), (s + ":bg1", case), (s + ":after_df_icao_infer", case), (s + ":in_the_product_of_the_other_fields", case)] +
                [(s + ":joint_with_%s" % r_.name, case) for r_ in CF.ROWS]) if s else []
    if case["sub"] == "vector" and len(case["p"]) == 3:
        s = judge_misc("vector", tuple(case["p"]))
        return [(s, case)] if s else [(x, c) for x, c in w_misc(0)["viols"] if x.startswith("oracle")]
    s = judge_misc(case["sub"], tuple(case["p"]))
    return [(s, case), (s + ":in_the_product_of_the_other_fields", case)] if s else []
