"""C18 - uplink interrogation decoding: address recovery (linear model + conformance) and field product."""
import itertools

import numpy as np

from engine import loader
from engine.runner import Acc
from engine.util import call, chunks, other_bits, vary_case
from spec import crc as R
from spec import frames as F

LEVEL = "model_checking"
RULE = ("address: uplink_icao is executed on every frame of weight <= 3 (both lengths) and every byte value per position "
        "to validate GF(2) linearity; its 112+56 basis images are compared with the Annex 10 uplink overlay and, on that "
        "model, all 2^24 addresses are recovered (numpy); direct: address alphabet x payload alphabet x UF 0..31 x both "
        "lengths; fields: UF(32) x RR(32) x DI(8) x SD content (IIS x RRS x LOS | SIS x LSS x RRS) and UF11 PR x IC x CL, "
        "bg-1 on all remaining bits; distinct = distinct (function, field tuple)")
ASSUMPTIONS = ["uplink AP = parity(data) XOR upper 24 bits of address(x)*G(x) (Annex 10 Vol IV 3.1.2.3.3.2)",
               "IC for DI in {2,4,5,6} is not asserted; for UF11 CL 5-7 (unassigned) is not asserted",
               "frames of weight > 3 rest on the validated linearity of uplink_icao"]

pms = loader.load("P")
from pyModeS.decoder import uplink as U  # noqa: E402


def icao_int(msg):
    return int(U.uplink_icao(msg), 16)


# ------------------------------------------------------------------ linearity / model
def w_lin(arg):
    n, w, i0 = arg
    acc = Acc()
    S = BASIS[n]
    if w == "bytes":
        nb = n // 8
        p = i0
        for v in range(256):
            fr = v << (8 * (nb - 1 - p))
            exp = 0
            for b in range(8):
                if (v >> (7 - b)) & 1:
                    exp ^= S[p * 8 + b]
            acc.n += 1
            if icao_int(F.hexn(fr, n)) != exp:
                acc.bad("uplink_icao:not_linear", {"kind": "lin", "msg": F.hexn(fr, n)})
        return acc.res()
    for comb in itertools.combinations(range(i0 + 1, n), w - 1):
        fr = 1 << (n - 1 - i0)
        exp = S[i0]
        for j in comb:
            fr |= 1 << (n - 1 - j)
            exp ^= S[j]
        acc.n += 1
        if icao_int(F.hexn(fr, n)) != exp:
            acc.bad("uplink_icao:not_linear", {"kind": "lin", "msg": F.hexn(fr, n)})
    return acc.res()


def w_model(_):
    """basis images vs the overlay model; all 2^24 addresses on the model."""
    acc = Acc()
    for n in (56, 112):
        S = BASIS[n]
        nd = n - 24
        # (1) data bit i together with its parity contribution maps to 0
        for i in range(nd):
            par = R.parity(1 << (nd - 1 - i), nd)
            img = S[i]
            for k in range(24):
                if (par >> (23 - k)) & 1:
                    img ^= S[nd + k]
            acc.n += 1
            if img != 0:
                acc.bad("uplink_icao:data_bit_leaks_into_address:len%d" % n, {"kind": "model", "n": n, "bit": i})
        # (2) AP images applied to top24(A*G) give A, for all A
        A = np.arange(1 << 24, dtype=np.uint64)
        prod = np.zeros(1 << 24, dtype=np.uint64)
        for i in range(24):
            prod ^= np.where((A >> np.uint64(i)) & np.uint64(1), np.uint64(R.G << i), np.uint64(0))
        top = (prod >> np.uint64(24)) & np.uint64(0xFFFFFF)
        rec = np.zeros(1 << 24, dtype=np.uint64)
        for k in range(24):
            rec ^= np.where((top >> np.uint64(23 - k)) & np.uint64(1), np.uint64(S[nd + k]), np.uint64(0))
        bad = np.nonzero(rec != A)[0]
        acc.cov["states"] = acc.cov.get("states", 0) + (1 << 24)
        acc.cov["transitions"] = acc.cov.get("transitions", 0) + (1 << 24) * 48
        if bad.size:
            acc.bad("uplink_icao:model_address_not_recovered:len%d" % n, {"kind": "model", "n": n, "addr": int(bad[0])})
    return acc.res()


# ------------------------------------------------------------------ direct address recovery
def w_addr(arg):
    addrs, seed = arg
    acc = Acc()
    for a in addrs:
        for ufv in range(32):
            for n in (56, 112):
                nd = n - 24 - 5
                for pay in F.backgrounds(nd, seed, 1) + [1 << i for i in range(0, nd, 3)]:
                    data = (ufv << nd) | pay
                    msg = F.hexn(R.uplink(data, n, a), n)
                    for m in (msg, msg.lower()):
                        acc.n += 1
                        r = call(U.uplink_icao, m)
                        if r != ("ok", "%06X" % a):
                            acc.bad("uplink_icao:wrong_address:len%d" % n, {"kind": "addr", "msg": m, "addr": a})
        acc.out.add(("addr", a))
    return acc.res()


# ------------------------------------------------------------------ fields
def build_sel(ufv, pc, rr, di, sd, n, addr=0x406B90, ma=0):
    data = (((ufv << 3 | pc) << 5 | rr) << 3 | di) << 16 | sd
    if n == 112:
        data = (data << 56) | ma
    return F.hexn(R.uplink(data, n, addr), n)


def exp_sel(ufv, rr, di, sd):
    """expected (bds, ic, lockout) for UF4/5/20/21."""
    b = None
    if rr > 15:
        if di == 7:
            b2 = (sd >> 8) & 0xF          # RRS bits 21-24
        elif di == 3:
            b2 = (sd >> 5) & 0xF          # RRS bits 24-27
        else:
            b2 = 0
        b = "%X%X" % (rr - 16, b2)
    if di in (0, 1, 7):
        ic = "II%d" % (sd >> 12)
    elif di == 3:
        ic = "SI%d" % (sd >> 10)
    else:
        ic = "?"
    if di in (1, 7):
        lo = bool((sd >> 6) & 1)           # LOS bit 26
    elif di == 3:
        lo = bool((sd >> 9) & 1)           # LSS bit 23
    else:
        lo = False
    return b, ic, lo


def judge_sel(msg, ufv, rr, di, sd, addr=None):
    sel = ufv in (4, 5, 20, 21)
    if addr is not None:
        # address first, then the fields, then the address again - all on the same string
        if call(U.uplink_icao, msg) != ("ok", "%06X" % addr):
            return "uplink_icao:wrong_address:before_fields"
    r = call(U.uf, msg)
    if r != ("ok", min(ufv, 24)):
        return "uf"
    rb, ri, rl, rp = call(U.bds, msg), call(U.ic, msg), call(U.lockout, msg), call(U.pr, msg)
    rf = call(U.uplink_fields, msg)
    for x in (rb, ri, rl, rp, rf):
        if x[0] != "ok":
            return "uplink:raises:%s" % x[1]
    if not sel:
        if ufv != 11 and (rb[1] is not None or ri[1] is not None or rl[1] is not None or rp[1] is not None):
            return "uplink:field_reported_for_other_UF"
        return None
    b, ic, lo = exp_sel(ufv, rr, di, sd)
    if rb[1] != b:
        return "bds:DI%d" % di
    if ic != "?" and ri[1] != ic:
        return "ic:DI%d" % di
    if rl[1] is not lo:
        return "lockout:DI%d" % di
    if rp[1] is not None:
        return "pr:reported_for_selective_UF"
    f = rf[1]
    if (f["BDS"] or None) != b:
        return "uplink_fields:BDS"
    if ic != "?" and f["IC"] != ic:
        return "uplink_fields:IC"
    if di in (0, 1, 3, 7) and bool(f["LOS"]) is not lo:
        return "uplink_fields:LOS"
    if f["RR"] != rr or f["DI"] != di:
        return "uplink_fields:RR_DI"
    return None


def judge_11(msg, prv, icv, cl):
    if call(U.uf, msg) != ("ok", 11):
        return "uf"
    r = call(U.pr, msg)
    if r != ("ok", prv):
        return "pr"
    exp = {0: "II%d" % icv, 1: "SI%d" % icv, 2: "SI%d" % (icv + 16), 3: "SI%d" % (icv + 32), 4: "SI%d" % (icv + 48)}.get(cl)
    r = call(U.ic, msg)
    if r[0] != "ok":
        return "ic:raises"
    if exp is not None and r[1] != exp:
        return "ic:UF11"
    f = call(U.uplink_fields, msg)
    if f[0] != "ok":
        return "uplink_fields:raises"
    if f[1]["PR"] != prv or (exp is not None and f[1]["IC"] != exp):
        return "uplink_fields:UF11"
    if call(U.bds, msg) != ("ok", None) or call(U.lockout, msg) != ("ok", None):
        return "uplink:field_reported_for_other_UF"
    return None


def w_fields(arg):
    ufv, rrs = arg
    acc = Acc()
    n = 112 if ufv >= 16 else 56
    k = 0
    for rr in rrs:
        for di in range(8):
            if di == 3:
                sds = [(sis << 10) | (lss << 9) | (rrsv << 5) | low for sis in range(64) for lss in (0, 1) for rrsv in range(16) for low in (0, 0x1F)][::1 if ufv in (4, 20) else 3]
            else:
                sds = [(iis << 12) | (rrsv << 8) | (los << 6) | rest for iis in range(16) for rrsv in range(16) for los in (0, 1) for rest in (0, 0xBF & ~0x40)][::1 if ufv in (4, 20) else 3]
            for sd in sds:
                k += 1
                ad = [0x406B90, 0xFFFFFF, 1][k % 3]
                msg = vary_case(build_sel(ufv, k % 8, rr, di, sd, n, ad, [0, (1 << 56) - 1][k % 2]), k // 2)
                acc.n += 1
                s = judge_sel(msg, ufv, rr, di, sd, ad if k % 2 else None)
                if not s and k % 2 and call(U.uplink_icao, msg) != ("ok", "%06X" % ad):
                    s = "uplink_icao:wrong_address:after_fields"
                if s:
                    acc.bad(s, {"kind": "sel", "msg": msg, "f": [ufv, rr, di, sd], "addr": ad if k % 2 else None})
            acc.out.add((ufv, rr, di))
    return acc.res()


def w_misc(_):
    acc = Acc()
    k = 0
    for prv in range(16):
        for icv in range(16):
            for cl in range(8):
                for spare in (0, 0xFFFF, 0x5A5A):
                    k += 1
                    data = ((11 << 4 | prv) << 4 | icv) << 3 | cl
                    data = (data << 16) | spare
                    msg = F.hexn(R.uplink(data, 56, [0xFFFFFF, 0x406B90][k % 2]), 56)
                    acc.n += 1
                    s = judge_11(msg, prv, icv, cl)
                    if s:
                        acc.bad(s, {"kind": "uf11", "msg": msg, "f": [prv, icv, cl]})
                acc.out.add(("uf11", prv, icv, cl))
    # other UFs: no field reported; bg-1 on a selective interrogation
    for ufv in range(32):
        if ufv in (4, 5, 20, 21, 11):
            continue
        for n in (56, 112):
            msg = F.hexn(R.uplink((ufv << (n - 29)) | 0x155555, n, 0x406B90), n)
            acc.n += 1
            s = judge_sel(msg, ufv, 0, 0, 0)
            if s:
                acc.bad(s, {"kind": "sel", "msg": msg, "f": [ufv, 0, 0, 0]})
    for ufv, rr, di, sd in ((4, 21, 7, 0x5B40), (20, 17, 3, 0xABE0), (5, 16, 1, 0x3040), (21, 31, 0, 0xF000)):
        n = 112 if ufv >= 16 else 56
        base = int(build_sel(ufv, 0, rr, di, sd, n), 16)
        for mask in other_bits(n, list(range(1, 6)) + list(range(9, 33))):
            msg = F.hexn(base ^ mask, n)
            acc.n += 1
            s = judge_sel(msg, ufv, rr, di, sd)
            if s:
                acc.bad(s + ":bg1", {"kind": "sel", "msg": msg, "f": [ufv, rr, di, sd]})
    return acc.res()


BASIS = {}


def basis():
    if not BASIS:
        for n in (56, 112):
            BASIS[n] = [icao_int(F.hexn(1 << (n - 1 - i), n)) for i in range(n)]
    return BASIS


def w_all24(arg):
    """the REAL uplink_icao over a whole residue class of the 24-bit address space on one UF4 carrier (thorough: every
    class, i.e. all 2^24 addresses): the linear model says nothing about an address the code singles out through a value
    it computes (a fast path keyed on a checksum, say) - only running the implementation on it does."""
    lo, hi, step, off = arg
    acc = Acc()
    d0 = (4 << 27) | 0x0155555
    p0 = R.parity(d0, 32)
    img = []
    for i in range(24):
        prod = R.G << i
        img.append((prod >> 24) & 0xFFFFFF)
    f = U.uplink_icao
    for a in range(lo + off, hi, step):
        top = 0
        x, i = a, 0
        while x:
            if x & 1:
                top ^= img[i]
            x >>= 1
            i += 1
        msg = "%08X%06X" % (d0, p0 ^ top)
        acc.n += 1
        if f(msg) != "%06X" % a:
            acc.bad("uplink_icao:wrong_address:len56:address_sweep", {"kind": "addr", "msg": msg, "addr": a})
    acc.out.add(("all24", lo))
    return acc.res()


def w_named(_):
    """addresses the module itself names: every integer below 2^24 found in the namespace of the uplink module (constants
    computed at import included), taken as an address and as an AP OVERLAY (the address whose overlay it is, by inverting
    the linear overlay map), with their neighbours - a shortcut keyed on such a value singles out exactly these."""
    acc = Acc()
    d0 = (4 << 27) | 0x0155555
    p0 = R.parity(d0, 32)
    img = [((R.G << i) >> 24) & 0xFFFFFF for i in range(24)]

    def overlay(a):
        top, i = 0, 0
        while a:
            if a & 1:
                top ^= img[i]
            a >>= 1
            i += 1
        return top
    # invert the overlay map over GF(2)
    rows = [(img[i], 1 << i) for i in range(24)]
    piv = {}
    for v, c in rows:
        for b in sorted(piv, reverse=True):
            if (v >> b) & 1:
                v ^= piv[b][0]
                c ^= piv[b][1]
        if v:
            piv[v.bit_length() - 1] = (v, c)

    def inverse(t):
        c = 0
        for b in sorted(piv, reverse=True):
            if (t >> b) & 1:
                t ^= piv[b][0]
                c ^= piv[b][1]
        return c if t == 0 else None
    named = set()
    import inspect
    for modl in (U, pms.common):
        for k_, v in vars(modl).items():
            vals = [v] if isinstance(v, int) and not isinstance(v, bool) else (list(v) if isinstance(v, (list, tuple)) and all(isinstance(x, int) for x in v) else [])
            for x in vals:
                if 0 <= x < (1 << 24):
                    named.add(x)
    from engine.util import source_words
    named |= {x for x in source_words(["decoder/uplink.py"])["ints"] if 0 <= x < (1 << 24)}
    cands = set()
    for v in named:
        for a in (v, inverse(v)):
            if a is not None:
                cands |= {a, a ^ 1, (a + 1) & 0xFFFFFF, (a - 1) & 0xFFFFFF}
    f = U.uplink_icao
    for a in sorted(cands):
        for dd, n in ((d0, 32),):
            msg = "%08X%06X" % (dd, p0 ^ overlay(a))
            acc.n += 1
            if f(msg) != "%06X" % a:
                acc.bad("uplink_icao:wrong_address:len56:address_named_by_the_module", {"kind": "addr", "msg": msg, "addr": a})
    acc.out.add(("named", len(cands)))
    return acc.res()


def w_any(t):
    if t[0] == "named":
        return w_named(None)
    if t[0] == "all24":
        return w_all24(t[1])
    basis()
    return {"lin": w_lin, "model": w_model, "addr": w_addr, "fields": w_fields, "misc": w_misc}[t[0]](t[1])


def run(ctx):
    for n in (56, 112):
        BASIS[n] = [icao_int(F.hexn(1 << (n - 1 - i), n)) for i in range(n)]
    if icao_int("0" * 14) != 0 or icao_int("0" * 28) != 0:
        ctx.add({"n": 1, "viols": [("uplink_icao:zero_frame", {"kind": "lin", "msg": "0" * 14})], "vcount": {"uplink_icao:zero_frame": 1}, "out": set(), "c": {}})
    tasks = [("model", None), ("misc", None)]
    maxw = 4 if ctx.thorough else 3
    for n in (56, 112):
        for w in range(2, maxw + 1):
            if w == 4 and n == 112:
                continue
            tasks += [("lin", (n, w, i0)) for i0 in range(n - w + 1)]
        tasks += [("lin", (n, "bytes", p)) for p in range(n // 8)]
    import random
    rng = random.Random(ctx.seed)
    addrs = [0, 0xFFFFFF, 0x406B90, 0xABCDEF, 0x800000, 1] + [1 << i for i in range(1, 23, 3)] + [rng.getrandbits(24) for _ in range(6)]
    tasks += [("addr", (c, ctx.seed)) for c in chunks(addrs, 1)]
    for ufv in (4, 5, 20, 21):
        tasks += [("fields", (ufv, list(c))) for c in chunks(range(32), 2)]
    step = 1 if ctx.thorough else 64
    tasks.append(("named", None))
    tasks += [("all24", (lo, lo + (1 << 19), step, (ctx.seed % step) if step > 1 else 0)) for lo in range(0, 1 << 24, 1 << 19)]
    ctx.cov["real_address_sweep"] = "all 2^24 addresses" if ctx.thorough else "addresses congruent to %d mod 64 (2^18 of 2^24)" % (ctx.seed % 64)
    ctx.cov["states"] = 0
    ctx.cov["transitions"] = 0
    ctx.pmap(w_any, tasks)
    ctx.cov["traces_validated_against_impl"] = int(ctx.n)
    ctx.cov["exhaustive"] = True
    ctx.cov["explanation"] = ("states = addresses swept on the linear model (2^24 per length); traces validated = real "
                              "uplink_icao/uf/bds/pr/ic/lockout/uplink_fields executions")
    ctx.samples.append({"UF4 DI=7 RR=21 RRS=11": build_sel(4, 0, 21, 7, 0x5B40, 56), "expected_bds": "5B", "address": "406B90"})


def replay(case):
    k = case["kind"]
    if not BASIS:
        for n in (56, 112):
            BASIS[n] = [icao_int(F.hexn(1 << (n - 1 - i), n)) for i in range(n)]
    if k == "lin":
        n = len(case["msg"]) * 4
        v = int(case["msg"], 16)
        exp = 0
        for i in range(n):
            if (v >> (n - 1 - i)) & 1:
                exp ^= BASIS[n][i]
        return [("uplink_icao:not_linear", case)] if icao_int(case["msg"]) != exp else []
    if k == "model":
        return w_model(None)["viols"]
    if k == "addr":
        r = call(U.uplink_icao, case["msg"])
        sg = "uplink_icao:wrong_address:len%d" % (len(case["msg"]) * 4)
        return [] if r == ("ok", "%06X" % case["addr"]) else [(sg, case), (sg + ":address_sweep", case), (sg + ":address_named_by_the_module", case)]
    if k == "uf11":
        s = judge_11(case["msg"], *case["f"])
        return [(s, case)] if s else []
    s = judge_sel(case["msg"], *case["f"], case.get("addr"))
    if not s and case.get("addr") is not None and call(U.uplink_icao, case["msg"]) != ("ok", "%06X" % case["addr"]):
        s = "uplink_icao:wrong_address:after_fields"
    return [(s, case), (s + ":bg1", case)] if s else []
