"""C09 - ADS-B velocity: airborne (TC19 subtypes 1-4) and surface movement (TC5-8)."""
import math

from engine import loader
from engine.runner import Acc
from engine.util import call, chunks, other_bits, vary_case
from spec import frames as F

LEVEL = "exploration"
RULE = ("TC19: subtype {1,2} x sign_ew x v_ew x sign_ns x v_ns over a boundary alphabet (thorough: the full 2x1024x2x1024 "
        "product), subtype {3,4} x heading status x all 1024 headings x airspeed alphabet x IAS/TAS; vertical rate "
        "source x sign x all 512 values; GNSS-baro difference sign x all 128; bg-1 over intent/IFR/NACv/reserved/header "
        "bits; surface: all 128 movement x 2 status x 128 track codes x TC5-8; distinct = distinct field tuples")
ASSUMPTIONS = ["ground speed may be truncated or rounded: accepted in (exact-1, exact+0.5]",
               "GNSS-baro difference code 127 (saturation) may decode to None or +-3150 ft",
               "reserved TC19 subtypes 0,5,6,7 are not judged here (C14 covers totality)"]

pms = loader.load("P")


def me19(st, f14, f15_24, f25, f26_35, vrsrc, vrsign, vr, dsign, diff, ic=0, ifr=0, nac=0, res=0):
    return F.me(19, [(6, 3, st), (9, 1, ic), (10, 1, ifr), (11, 3, nac), (14, 1, f14), (15, 10, f15_24), (25, 1, f25),
                     (26, 10, f26_35), (36, 1, vrsrc), (37, 1, vrsign), (38, 9, vr), (47, 2, res), (49, 1, dsign), (50, 7, diff)])


def expect19(st, f14, a, f25, b, vrsrc, vrsign, vr):
    vs = None if vr == 0 else (-1 if vrsign else 1) * (vr - 1) * 64
    src = "BARO" if vrsrc else "GNSS"
    if st in (1, 2):
        if a == 0 or b == 0:
            return None
        k = 4 if st == 2 else 1
        vwe = (-1 if f14 else 1) * (a - 1) * k
        vsn = (-1 if f25 else 1) * (b - 1) * k
        spd = math.sqrt(vwe * vwe + vsn * vsn)
        trk = math.degrees(math.atan2(vwe, vsn)) % 360.0
        return ("gs", spd, trk, vs, "GS", src)
    hdg = a * 360.0 / 1024 if f14 else None
    k = 4 if st == 4 else 1
    spd = None if b == 0 else (b - 1) * k
    return ("as", spd, hdg, vs, "TAS" if f25 else "IAS", src)


def judge19(msg, exp, dexp):
    r = call(pms.adsb.velocity, msg, True)
    r2 = call(pms.adsb.airborne_velocity, msg, True)
    if r != r2:
        return "velocity:routing_differs_from_airborne_velocity"
    if r[0] != "ok":
        return "velocity:raises:%s" % r[1]
    got = r[1]
    sh = call(pms.adsb.speed_heading, msg)
    if exp is None:
        if got is not None:
            return "velocity:subtype1-2_unavailable_component_not_None"
        if sh != ("ok", None):
            return "speed_heading:not_None"
    else:
        if got is None:
            return "velocity:%s:whole_result_None_though_available" % ("subtype3-4" if exp[0] == "as" else "subtype1-2")
        try:
            spd, ang, vs, tag, dirt, src = got
        except Exception:
            return "velocity:bad_shape"
        kind = exp[0]
        if kind == "gs":
            if spd is None or not (exp[1] - 1 < spd <= exp[1] + 0.5):
                return "velocity:ground_speed"
            d = abs((ang - exp[2] + 180) % 360 - 180) if ang is not None else 999
            if d > 1e-9:
                return "velocity:track"
            if not (0.0 <= ang <= 360.0):
                # the statement does not fix the representative of the angle (360.0 for north is tolerated), but a
                # value outside [0, 360] is not a compass track under any convention
                return "velocity:track_outside_0_360"
        else:
            if spd != exp[1]:
                return "velocity:airspeed"
            if (ang is None) != (exp[2] is None) or (ang is not None and abs(ang - exp[2]) > 1e-9):
                return "velocity:heading"
        if vs != exp[3]:
            return "velocity:vertical_rate"
        if tag != exp[4]:
            return "velocity:speed_type"
        if src != exp[5]:
            return "velocity:vertical_rate_source"
        if sh[0] != "ok" or sh[1] is None or tuple(sh[1]) != (spd, ang):
            return "speed_heading:differs_from_velocity"
    if dexp != "skip":
        r = call(pms.adsb.altitude_diff, msg)
        if r[0] != "ok":
            return "altitude_diff:raises"
        if isinstance(dexp, tuple):
            if r[1] not in dexp:
                return "altitude_diff:saturation_code"
        elif r[1] != dexp:
            return "altitude_diff"
    return None


def dexp_of(dsign, diff):
    if diff == 0:
        return None
    v = (-1 if dsign else 1) * (diff - 1) * 25
    if diff == 127:
        return (None, v)
    return v


def w19(arg):
    mode, items = arg
    acc = Acc()

    def do(fields, bgmask=0):
        st, f14, a, f25, b, vrsrc, vrsign, vr, dsign, diff = fields
        base = me19(*fields)
        msg = F.es(base, 0x406B90, 5, 17)
        if bgmask:
            msg = F.hexn(int(msg, 16) ^ bgmask, 112)
        msg = vary_case(msg, acc.n)
        acc.n += 1
        s = judge19(msg, expect19(st, f14, a, f25, b, vrsrc, vrsign, vr), dexp_of(dsign, diff))
        if s:
            acc.bad(s, {"kind": "tc19", "msg": msg, "fields": list(fields)})
    if mode == "vel":
        for st, f14, a, V in items:
            for f25 in (0, 1):
                for b in V:
                    k = (a * 7 + b) % 512
                    do((st, f14, a, f25, b, k % 2, (k // 2) % 2, k, b % 2, (a + b) % 128))
            acc.out.add((st, f14, a))
    elif mode == "hdg":
        for st, f14, A, spds in items:
            for a in A:
                for f25 in (0, 1):
                    for b in spds:
                        do((st, f14, a, f25, b, a % 2, b % 2, (a + b) % 512, 0, a % 128))
                acc.out.add((st, f14, a))
    elif mode == "vr":
        for st, vrsrc, vrsign in items:
            for vr in range(512):
                do((st, 1, 100, 0, 200, vrsrc, vrsign, vr, 0, 5))
                acc.out.add(("vr", st, vrsrc, vrsign, vr))
            for dsign in (0, 1):
                for diff in range(128):
                    do((st, 1, 100, 1, 200, vrsrc, vrsign, 17, dsign, diff))
                    acc.out.add(("diff", dsign, diff))
    elif mode == "pyth":
        # component pairs whose exact speed is an integer (a*a + b*b a perfect square): the cases in which a magnitude that
        # comes out one ulp low (a different but "equivalent" formula) is truncated to the wrong knot
        for st in items:
            for a in range(1, 1023):
                for b in range(a, 1023):
                    h2 = a * a + b * b
                    r_ = math.isqrt(h2)
                    if r_ * r_ == h2:
                        for (x, y) in ((a, b), (b, a)):
                            do((st, a % 2, x + 1, b % 2, y + 1, 0, 0, 9, 0, 3))
            acc.out.add(("pyth", st))
    elif mode == "diag":
        # arithmetic relations between the two 10-bit fields: the whole diagonal, the anti-diagonal, and neighbours
        for st in items:
            for v in range(1024):
                for b in (v, 1023 - v, (v + 1) % 1024):
                    do((st, v % 2, v, (v // 2) % 2, b, 0, 1, (v % 511) + 1, 0, 5))
            acc.out.add(("diag", st))
    elif mode == "pairs":
        # joint conditions: every pair of the fourteen ME fields at every combination of their corner values (0, 1, top bit
        # only, all ones), the other fields at a plausible default; per subtype
        widths = [("f14", 1), ("a", 10), ("f25", 1), ("b", 10), ("vrsrc", 1), ("vrsign", 1), ("vr", 9), ("dsign", 1), ("diff", 7),
                  ("ic", 1), ("ifr", 1), ("nac", 3), ("res", 2)]
        dflt = {"f14": 1, "a": 100, "f25": 0, "b": 200, "vrsrc": 0, "vrsign": 0, "vr": 17, "dsign": 0, "diff": 5, "ic": 0, "ifr": 0, "nac": 0, "res": 0}

        def corners(w):
            return sorted({0, 1, 1 << (w - 1), (1 << w) - 1})
        for st in items:
            for i in range(len(widths)):
                for j in range(i + 1, len(widths)):
                    (n1, w1), (n2, w2) = widths[i], widths[j]
                    for v1 in corners(w1):
                        for v2 in corners(w2):
                            f = dict(dflt)
                            f[n1], f[n2] = v1, v2
                            fields = (st, f["f14"], f["a"], f["f25"], f["b"], f["vrsrc"], f["vrsign"], f["vr"], f["dsign"], f["diff"])
                            base = me19(*fields, ic=f["ic"], ifr=f["ifr"], nac=f["nac"], res=f["res"])
                            msg = vary_case(F.es(base, 0x406B90, 5, 17 + (i + j) % 2), acc.n)
                            acc.n += 1
                            s_ = judge19(msg, expect19(*fields[:8]), dexp_of(f["dsign"], f["diff"]))
                            if s_:
                                acc.bad(s_ + ":joint_%s_%s" % (n1, n2), {"kind": "tc19", "msg": msg, "fields": list(fields)})
            acc.out.add(("pairs", st))
    elif mode == "bg1":
        excl = list(range(1, 6)) + list(range(33, 41)) + list(range(46, 79)) + list(range(81, 89))
        masks = other_bits(112, excl)
        for fields in items:
            for m in masks:
                do(fields, m)
    return acc.res()


def mov_expected(m):
    if m == 0 or m > 124:
        return None
    if m == 1:
        return 0.0
    if m <= 8:
        return 0.125 + (m - 2) * 0.125
    if m <= 12:
        return 1 + (m - 9) * 0.25
    if m <= 38:
        return 2 + (m - 13) * 0.5
    if m <= 93:
        return 15 + (m - 39) * 1.0
    if m <= 108:
        return 70 + (m - 94) * 2.0
    if m <= 123:
        return 100 + (m - 109) * 5.0
    return 175.0


def judge_surface(msg, mov, st, trk):
    es, et = mov_expected(mov), (trk * 360.0 / 128 if st else None)
    for f in (pms.adsb.velocity, pms.adsb.surface_velocity):
        r = call(f, msg, True)
        if r[0] != "ok":
            return "surface_velocity:raises:%s" % r[1]
        try:
            spd, ang, vs, tag = r[1][:4]
        except Exception:
            return "surface_velocity:bad_shape"
        if (spd is None) != (es is None) or (spd is not None and abs(spd - es) > 1e-9):
            return "surface_velocity:movement_table"
        if (ang is None) != (et is None) or (ang is not None and abs(ang - et) > 1e-9):
            return "surface_velocity:track"
        if tag != "GS":
            return "surface_velocity:type"
    r = call(pms.adsb.speed_heading, msg)
    if r[0] != "ok" or r[1] is None or tuple(r[1]) != (spd, ang):
        return "speed_heading:surface"
    return None


def w_surface(arg):
    tc, movs = arg
    acc = Acc()
    for mov in movs:
        for st in (0, 1):
            for trk in range(128):
                k = mov * 256 + st * 128 + trk
                me = F.me(tc, [(6, 7, mov), (13, 1, st), (14, 7, trk)], rest=[0, (1 << 36) - 1, 0x5A5A5A5A5][k % 3])
                msg = vary_case(F.es(me, [0x406B90, 0xFFFFFF][k % 2], k % 8, 17 + k % 2, [0, 0xFFFFFF][k % 2]), k)
                acc.n += 1
                s = judge_surface(msg, mov, st, trk)
                if s:
                    acc.bad(s, {"kind": "surface", "msg": msg, "fields": [mov, st, trk]})
                acc.out.add(("surf", mov, st, trk))
    return acc.res()


def seq_thunks(tag=None):
    """aliasing inputs: identical velocity field bits under subtypes 1, 2, 3, 4; the same message twice; a surface frame."""
    th = []
    for st in (1, 2, 3, 4):
        f = (st, 1, 300, 0, 200, 1, 0, 20, 0, 9)
        msg = F.es(me19(*f), 0x406B90, 5, 17)
        th.append(("tc19_subtype%d" % st, (lambda m=msg, f=f: judge19(m, expect19(*f[:8]), dexp_of(f[8], f[9])))))
    f = (2, 0, 2, 0, 2, 0, 0, 16, 1, 126)
    msg = F.es(me19(*f), 0x4840D6, 5, 18)
    th.append(("tc19_subtype2_slow", (lambda m=msg, f=f: judge19(m, expect19(*f[:8]), dexp_of(f[8], f[9])))))
    sm = F.es(F.me(7, [(6, 7, 124), (13, 1, 1), (14, 7, 100)]), 0x406B90, 5, 17)
    th.append(("surface_mov124", (lambda m=sm: judge_surface(m, 124, 1, 100))))
    sm2 = F.es(F.me(5, [(6, 7, 1), (13, 1, 0), (14, 7, 0)]), 0x406B90, 5, 17)
    th.append(("surface_stopped", (lambda m=sm2: judge_surface(m, 1, 0, 0))))
    return th


def w_seqx(depth):
    from engine.util import explore_sequences
    acc = Acc()
    explore_sequences(acc, seq_thunks(), depth, "velocity")
    return acc.res()


def w_any(t):
    if t[0] == "q":
        return w_seqx(t[1])
    return w_surface(t[1]) if t[0] == "s" else w19(t[1])


def run(ctx):
    from engine.util import source_words
    lit = [x for x in source_words(["decoder/bds/bds09.py", "decoder/bds/bds06.py", "decoder/adsb.py"])["ints"] if 0 <= x < 1024]
    V = sorted(set([0, 1, 2, 3, 4, 511, 512, 513, 1021, 1022, 1023] + list(range(0, 1024, 41)) + sorted(lit)[:40]))
    full = list(range(1024))
    tasks = []
    for st in (1, 2):
        for f14 in (0, 1):
            avals = full if ctx.thorough else V
            for c in chunks(avals, 8 if ctx.thorough else 6):
                tasks.append(("v", ("vel", [(st, f14, a, full if ctx.thorough else V) for a in c])))
    for st in (3, 4):
        for f14 in (0, 1):
            for c in chunks(full, 64):
                tasks.append(("v", ("hdg", [(st, f14, c, V if not ctx.thorough else sorted(set(V + list(range(0, 1024, 7)))))])))
    for st in (1, 2, 3, 4):
        tasks.append(("v", ("vr", [(st, s, g) for s in (0, 1) for g in (0, 1)])))
    bgf = [(1, 0, 10, 1, 20, 1, 0, 30, 0, 9), (2, 1, 1023, 0, 1, 0, 1, 511, 1, 126), (3, 1, 0, 1, 300, 1, 0, 1, 0, 1),
           (4, 0, 512, 0, 0, 0, 0, 0, 0, 0), (3, 1, 1023, 0, 1, 1, 1, 2, 1, 2)]
    tasks += [("v", ("bg1", [f])) for f in bgf]
    tasks += [("v", ("pairs", [st])) for st in (1, 2, 3, 4)]
    tasks += [("v", ("diag", [st])) for st in (1, 2, 3, 4)]
    tasks += [("v", ("pyth", [st])) for st in (1, 2)]
    for tc in (5, 6, 7, 8):
        for c in chunks(range(128), 16):
            tasks.append(("s", (tc, list(c))))
    tasks.append(("q", 4 if ctx.thorough else 3))
    ctx.pmap(w_any, tasks, ambient=True)
    ctx.cov["exhaustive"] = bool(ctx.thorough)
    ctx.samples.append({"tc19": F.es(me19(1, 0, 10, 1, 20, 1, 0, 30, 0, 9)), "fields": "st=1 ew=+9 ns=-19 vr=+1856 baro diff=+200"})


def replay(case):
    if case["kind"] == "seqx":
        from engine.util import replay_sequence
        s = replay_sequence(seq_thunks(), case["sequence"])
        return [(s, case)] if s else []
    if case["kind"] == "surface":
        s = judge_surface(case["msg"], *case["fields"])
    else:
        st, f14, a, f25, b, vrsrc, vrsign, vr, dsign, diff = case["fields"]
        s = judge19(case["msg"], expect19(st, f14, a, f25, b, vrsrc, vrsign, vr), dexp_of(dsign, diff))
        if s:
            nm = ["f14", "a", "f25", "b", "vrsrc", "vrsign", "vr", "dsign", "diff", "ic", "ifr", "nac", "res"]
            return [(s, case)] + [(s + ":joint_%s_%s" % (x, y), case) for i_, x in enumerate(nm) for y in nm[i_ + 1:]]
    return [(s, case)] if s else []
