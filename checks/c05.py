"""C05 - surface CPR global decode selects the solution nearest the receiver."""
import math
from fractions import Fraction as Fr

from engine import loader
from engine.runner import Acc
from engine.util import ca_for, call, chunks, ts_dec, ts_pair, vary_case
from spec import cpr as C
from spec import cprsets as S
from spec import frames as F

LEVEL = "exploration"
RULE = ("surface positions: equator +-{0,1,10,4000} bins, NL transitions +-bins, +-87, zone edges, mid-latitudes in all "
        "quadrants x longitudes {0, +-90, +-180 +-bins, zone edges +-1 bin, generic} x displacement {0, 0.2 NM N/E/S/W} "
        "x receiver offsets {0, +-40 NM N/S, +-40 NM E/W, four 30 NM diagonals} (|dlon| < 45 deg) x both time orders x "
        "TC 5..8; position() without a receiver must raise RuntimeError; N,S,N / S,N,S decode sequences of targets 90 deg apart in latitude (identical CPR latitude fields); distinct = distinct (yz0,xz0,yz1,xz1)")
ASSUMPTIONS = ["expected = encoder's (Rlat_i, Rlon_i) of the newer frame within one quantisation step (90/(60-i)/2^17, "
               "Dlon_i/2^17), longitude modulo 360", "receiver positions with |lat| > 90 or a longitude offset >= 45 deg "
               "(polar caps) are not generated", "positions within 1e-9 deg of an NL transition skipped",
               "an encoded latitude of exactly +90 is skipped: the surface algorithm of DO-260B yields [0,90) / [-90,0) only"]

pms = loader.load("P")
DISP = [(0, 0), (Fr(1, 5), 0), (Fr(-1, 5), 0), (0, Fr(1, 5)), (0, Fr(-1, 5))]
RECV = [(0, 0), (40, 0), (-40, 0), (0, 40), (0, -40), (21, 21), (21, -21), (-21, 21), (-21, -21)]
RECV_T = RECV + [(10, 0), (-10, 0), (0, 10), (0, -10), (44, 0), (-44, 0), (0, 44), (0, -44), (31, 31), (-31, -31),
                 (1, 0), (-1, 0), (0, 1), (0, -1), (Fr(1, 10), 0), (Fr(-1, 10), 0)]


def judge(p):
    fn, m0, m1, t0, t1, latr, lonr, exp = p
    t0, t1 = ts_dec(t0), ts_dec(t1)
    if fn == "noref":
        r = call(pms.adsb.position, m0, m1, t0, t1)
        return None if r == ("exc", "RuntimeError") else "surface:position_without_receiver_not_refused"
    f = pms.adsb.position if fn == "position" else pms.adsb.surface_position
    r = call(f, m0, m1, t0, t1, latr, lonr)
    if r[0] != "ok":
        return "surface:raises:%s" % r[1]
    rlat, rlon, tlat, tlon, cls = exp[:5]
    if r[1] is None:
        return None if cls.startswith("cross-band:") else "surface:None_in_same_NL_band:%s" % cls
    try:
        lat, lon = r[1]
        dlat, dlon = abs(lat - rlat), C.lon_diff(lon, rlon)
        if len(exp) > 5 and (dlat > tlat + 1e-9 or dlon > tlon + 1e-9):
            # equal timestamps, same position: the other frame's carried position is just as good
            dlat, dlon = abs(lat - exp[5][0]), C.lon_diff(lon, exp[5][1])
            tlat, tlon = exp[5][2], exp[5][3]
    except Exception:
        return "surface:bad_shape"
    if dlat > tlat + 1e-9:
        return "surface:wrong_lat:%s" % cls
    if dlon > tlon + 1e-9:
        return "surface:wrong_lon:%s" % cls
    return None


def cls_of(lat, lon, latr, lonr):
    c = []
    if (lat < 0) != (latr < 0) or latr == 0:
        c.append("receiver_other_side_of_equator" if latr != 0 else "receiver_on_equator")
    if abs(float(lon) - float(lonr)) > 180:
        c.append("across_antimeridian")
    elif (lon < 0) != (lonr < 0):
        c.append("across_lon0")
    return "+".join(c) or "same_quadrant"


def w_lats(arg):
    lats, recvs, seed = arg
    acc = Acc()
    k = seed
    kt = seed
    for lat in lats:
        for lon in S.lon_alphabet(lat, True, False):
            for disp in DISP:
                latB, lonB = C.offset_nm(lat, lon, disp[0], disp[1])
                if not (-90 <= latB <= 90):
                    continue
                k += 1
                e0 = C.encode(lat, lon, 0, True)
                e1 = C.encode(latB, lonB, 1, True)
                if C.near_transition(e0["rlat"], C.EPS) or C.near_transition(e1["rlat"], C.EPS):
                    acc.c["skipped_near_transition"] += 1
                    continue
                if e0["rlat"] >= 90 or e1["rlat"] >= 90:
                    acc.c["skipped_north_pole_not_representable"] += 1
                    continue
                crossband = C.NL(e0["rlat"]) != C.NL(e1["rlat"])
                if crossband:
                    # the decoder may return None; if it does return a position it must still be the newer frame's
                    acc.c["different_NL_bands"] += 1
                tc = 5 + k % 4
                m0 = F.es(C.me_surface(tc, k % 128, k % 2, (k * 5) % 128, 0, e0["yz"], e0["xz"], t=k % 2), 0x406B90 ^ (k % 5), ca_for(17 + k % 2, k // 2), 17 + k % 2)
                # the two frames of a pair may come through different links: a DF17 squitter and a DF18 rebroadcast (ADS-R /
                # TIS-B fine format) of the same aircraft carry the same ME field: the formats of the two frames rotate independently
                df1 = 17 + (k // 2) % 2
                m1 = F.es(C.me_surface(5 + (k + 1) % 4, (k * 3) % 128, 1, k % 128, 1, e1["yz"], e1["xz"]), 0x406B90 ^ (k % 5), ca_for(df1, k // 4), df1)
                m0, m1 = vary_case(m0, k // 3), vary_case(m1, k // 5)      # each frame in its own spelling
                acc.out.add((e0["yz"], e0["xz"], e1["yz"], e1["xz"]))
                if k % 11 == 0:
                    acc.n += 1
                    s = judge(("noref", m0, m1, 1, 2, None, None, None))
                    if s:
                        acc.bad(s, {"p": ["noref", m0, m1, 1, 2, None, None, None]})
                for rn, re_ in recvs:
                    latr, lonr = C.offset_nm(lat, lon, rn, re_)
                    if not (-90 <= latr <= 90) or abs(lonr - lon) >= 45 or abs(lonr - lonB) >= 45:
                        acc.c["receiver_outside_premise"] += 1
                        continue
                    lonr = S.wrap180(lonr)
                    for newer_even in ((True, False, None) if disp == (0, 0) else (True, False)):
                        e = e0 if newer_even else e1
                        kt += 1
                        t0, t1 = ts_pair(kt, bool(newer_even))   # representation rotates: ints, 0, floats, datetimes ...
                        exp = [float(e["rlat"]), float(e["rlon"]), float(e["dlat"]) / 131072, float(e["dlon"]) / 131072,
                               ("cross-band:" if crossband else "") + cls_of(e["rlat"], S.wrap180(e["rlon"]), latr, lonr)]
                        if newer_even is None:
                            # same position, same timestamp: either frame's carried position is acceptable
                            t0 = t1 = 7
                            exp[4] += "+equal_timestamps"
                            exp.append([float(e0["rlat"]), float(e0["rlon"]), float(e0["dlat"]) / 131072, float(e0["dlon"]) / 131072])
                        args = (m0, m1, t0, t1)   # documented order: even first (C05 does not quantify over argument order)
                        fn = "position" if k % 2 else "surface_position"
                        acc.n += 1
                        s = judge((fn,) + args + (float(latr), float(lonr), exp))
                        if s:
                            acc.bad(s, {"p": [fn] + list(args) + [float(latr), float(lonr), exp], "receiver_offset_nm": [float(rn), float(re_)]})
    if lats:
        acc.samples.append({"even": m0, "odd": m1, "receiver": [float(latr), float(lonr)]})
    return acc.res()


def w_alias(arg):
    """Sequences of decodes whose frames carry IDENTICAL CPR latitude fields but belong to targets 90 degrees apart in
    latitude (north / south solution): N,S,N and S,N,S in one process, each with its own nearby receiver.  An absolute
    oracle on every step exposes state carried from one call to the next (e.g. a cache keyed on the CPR fields)."""
    lats = arg
    acc = Acc()
    k = 0
    for lat in lats:
        for lon in (Fr(100457, 10000), Fr(-1796, 10), Fr(5, 100)):
            tg = {"N": (lat, lon), "S": (lat - 90, lon)}
            enc = {}
            for h, (la, lo) in tg.items():
                e0, e1 = C.encode(la, lo, 0, True), C.encode(la, lo, 1, True)
                enc[h] = (e0, e1)
            if (enc["N"][0]["yz"], enc["N"][1]["yz"]) != (enc["S"][0]["yz"], enc["S"][1]["yz"]):
                acc.c["alias_fields_differ"] += 1
                continue
            for order in ("NSN", "SNS"):
                for newer_even in (True, False):
                    for step, h in enumerate(order):
                        k += 1
                        e0, e1 = enc[h]
                        if C.near_transition(e0["rlat"], C.EPS) or C.near_transition(e1["rlat"], C.EPS) or C.NL(e0["rlat"]) != C.NL(e1["rlat"]):
                            continue
                        m0 = F.es(C.me_surface(7, 10, 1, 5, 0, e0["yz"], e0["xz"]), 0x406B90, 5, 17)
                        m1 = F.es(C.me_surface(7, 10, 1, 5, 1, e1["yz"], e1["xz"]), 0x406B90, 5, 17)
                        la, lo = tg[h]
                        latr, lonr = C.offset_nm(la, lo, 7 if h == "N" else -7, 7)
                        e = e0 if newer_even else e1
                        t0, t1 = (5, 4) if newer_even else (4, 5)
                        exp = [float(e["rlat"]), float(e["rlon"]), float(e["dlat"]) / 131072, float(e["dlon"]) / 131072, "hemisphere_alias"]
                        p_ = ("surface_position", m0, m1, t0, t1, float(latr), float(S.wrap180(lonr)), exp)
                        acc.n += 1
                        s = judge(p_)
                        if s:
                            acc.bad(s + ":step%d_of_%s" % (step, order), {"p": list(p_)})
            acc.out.add(("alias", lat, lon))
    return acc.res()


def w_cross(_):
    """joint conditions across the two frames of a pair: the fields a position decode must ignore (movement, track status,
    track, T, type code, CA/CF, DF) at corner values in BOTH frames independently - equal values included - for targets that
    moved (0.15 NM N, 0.15 NM E, 0.1 NM diagonal) between the frames and for a stationary one."""
    acc = Acc()
    k = 0
    movs = [0, 1, 2, 64, 124, 127]
    for lat, lon in ((Fr(523081, 10000), Fr(47642, 10000)), (Fr(-3394, 100), Fr(1512, 10)), (Fr(2, 100), Fr(-1799, 10))):
        for disp in ((0, 0), (Fr(15, 100), 0), (0, Fr(15, 100)), (Fr(-1, 10), Fr(1, 10))):
            latB, lonB = C.offset_nm(lat, lon, disp[0], disp[1])
            e0, e1 = C.encode(lat, lon, 0, True), C.encode(latB, lonB, 1, True)
            if C.NL(e0["rlat"]) != C.NL(e1["rlat"]) or C.near_transition(e0["rlat"], C.EPS) or C.near_transition(e1["rlat"], C.EPS):
                continue
            latr, lonr = C.offset_nm(lat, lon, 5, -6)
            lonr = S.wrap180(lonr)
            for mov0 in movs:
                for mov1 in movs:
                    for st0, trk0, st1, trk1 in ((0, 0, 0, 0), (1, 127, 1, 127), (1, 1, 0, 64), (0, 127, 1, 0)):
                        k += 1
                        tc0, tc1 = 5 + k % 4, 5 + (k // 4) % 4
                        df0, df1 = 17 + k % 2, 17 + (k // 2) % 2
                        m0 = vary_case(F.es(C.me_surface(tc0, mov0, st0, trk0, 0, e0["yz"], e0["xz"], t=k % 2), 0x4840D6, ca_for(df0, k), df0), k)
                        m1 = vary_case(F.es(C.me_surface(tc1, mov1, st1, trk1, 1, e1["yz"], e1["xz"], t=(k // 2) % 2), 0x4840D6, ca_for(df1, k // 3), df1), k // 2)
                        for newer_even in (True, False):
                            e = e0 if newer_even else e1
                            t0, t1 = (9, 8) if newer_even else (8, 9)
                            exp = [float(e["rlat"]), float(e["rlon"]), float(e["dlat"]) / 131072, float(e["dlon"]) / 131072, "cross_frame_fields"]
                            p_ = ("position" if k % 2 else "surface_position", m0, m1, t0, t1, float(latr), float(lonr), exp)
                            acc.n += 1
                            s_ = judge(p_)
                            if s_:
                                acc.bad(s_ + ":joint_with_ignored_fields_of_both_frames", {"p": list(p_)})
            acc.out.add(("cross", float(lat), float(disp[0]), float(disp[1])))
    return acc.res()


def _pf(lat, lon, i, surface, aa):
    e = C.encode(Fr(lat).limit_denominator(10 ** 6), Fr(lon).limit_denominator(10 ** 6), i, surface)
    me = C.me_surface(7, 12, 1, 40, i, e["yz"], e["xz"]) if surface else C.me_airborne(11, 0xC38, i, e["yz"], e["xz"])
    return F.es(me, aa, 5, 17)


def w_inter(bound):
    """re-entrancy (preemption bound 1, engine.interleave): a pair decode suspended before each of its source lines while
    the decode of another aircraft's pair runs to completion; both must give the answers they give alone."""
    from engine.util import interleaved_ok
    acc = Acc()
    for fn, cases in INTER:
        bad_, n = interleaved_ok(getattr(pms.adsb, fn), cases(), bound=bound or 1)
        acc.n += n
        acc.c["interleaved_schedules"] += n
        for a_, nm, k_ in bad_:
            acc.bad("%s:answer_changes_when_another_call_runs_in_between" % "surface", {"inter": fn, "a": list(a_), "preempt_before_line_event": k_, "bound": bound or 1})
        acc.out.add(("inter", fn))
    return acc.res()


def _sfc_pairs():
    return [(_pf(52.31, 4.76, 0, True, 0x4840D6), _pf(52.311, 4.761, 1, True, 0x4840D6), 10, 11, 52.3, 4.7),
            (_pf(-33.94, 151.17, 0, True, 0x7C1234), _pf(-33.941, 151.171, 1, True, 0x7C1234), 21, 20, -33.9, 151.2),
            (_pf(40.64, -73.78, 0, True, 0xA00001), _pf(40.641, -73.781, 1, True, 0xA00001), 5, 6, 40.6, -73.8)]


INTER = [("surface_position", _sfc_pairs), ("position", _sfc_pairs)]


def w_any(t):
    if t[0] == "r":
        return w_inter(t[1])
    if t[0] == "x":
        return w_cross(None)
    return w_alias(t[1]) if t[0] == "a" else w_lats(t[1])


def surface_lats(dense):
    binw = Fr(90, 60 * (1 << 17))
    out = []
    for o in (0, 1, -1, 10, -10, 4000, -4000, 40000, -40000):
        out.append(o * binw)
    L = S.lat_alphabet(True, dense)
    out += L if dense else L[::3]
    out += [Fr(521, 10), Fr(-337, 10), Fr(12345, 1000), Fr(-667, 10)]
    return list(dict.fromkeys(x for x in out if -90 <= x <= 90))


def run(ctx):
    lats = surface_lats(ctx.thorough)
    recvs = RECV_T if ctx.thorough else RECV
    al = [Fr(3, 10), Fr(100123, 10000), Fr(4001234, 100000), Fr(449, 10), Fr(5995, 100), Fr(867, 10), Fr(893, 10), Fr(2, 1)]
    al += [Fr(t) + o for t in list(C.TRANS.values())[::6] for o in (Fr(-1, 1000), Fr(1, 1000))]
    ctx.pmap(w_any, [("l", (c, recvs, ctx.seed)) for c in chunks(lats, 6)] + [("a", al), ("x", None), ("r", None)] + ([("r", 2)] if ctx.thorough else []))
    ctx.cov["latitudes"] = len(lats)
    ctx.cov["receiver_offsets"] = len(recvs)


def replay(case):
    if "inter" in case:
        return [(s_, c_) for s_, c_ in w_inter(case.get("bound"))["viols"] if c_["inter"] == case["inter"]][:1]
    s = judge(tuple(case["p"]))
    return [(s, case), (s + ":joint_with_ignored_fields_of_both_frames", case)] + [(s + ":step%d_of_%s" % (i, o), case) for i in range(3) for o in ("NSN", "SNS")] if s else []
