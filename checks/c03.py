"""C03 - airborne CPR global decode recovers the encoded position."""
from fractions import Fraction as Fr

from engine import loader
from engine.runner import Acc
from engine.util import ca_for, call, chunks, ts_dec, ts_pair, vary_case
from spec import cpr as C
from spec import cprsets as S
from spec import frames as F

LEVEL = "exploration"
RULE = ("latitudes: every NL transition (both hemispheres) +-{0,1/2,1,3} bins, every even/odd zone edge +-1 bin, poles, "
        "+-87, equator +-bins, generic; longitudes per latitude: zone edges of both grids +-1 bin for m in "
        "{0,1,NL/2,NL-1}, 0, +-90, +-180 +-bins, generic; x displacement {0, 1 NM N/S/E/W, 0.7 NM diagonal} x both time "
        "orders x both argument orders x TC rotated over {9,11,18,20,22}; same-parity pairs must raise; thorough: "
        "dense offsets and a full sweep of every 64th even-lattice latitude bin; distinct = distinct (yz0,xz0,yz1,xz1)")
ASSUMPTIONS = ["expected position = DO-260B encoder's (Rlat_i, Rlon_i) of the newer frame, tolerance one quantisation "
               "step (Dlat_i/2^17, Dlon_i/2^17) + 1e-9", "None accepted iff reference NL of the two encoded latitudes "
               "differ (or either is within 1e-9 deg of a transition)", "equal timestamps only for identical positions (either frame's carried position accepted)"]

pms = loader.load("P")
DISP = [(0, 0), (1, 0), (-1, 0), (0, 1), (0, -1), (Fr(1, 2), Fr(1, 2))]
TCS = [9, 11, 18, 20, 22]


def judge(p):
    fn, m0, m1, t0, t1, exp = p[:6]
    f = pms.adsb.position if fn == "position" else pms.adsb.airborne_position
    refs = tuple(p[6]) if len(p) > 6 and p[6] is not None else ()
    # position() takes an optional receiver location (needed for surface pairs only): an airborne pair has a global
    # solution, which must not depend on whether a location - near, far away or (0, 0) - is passed along
    r = call(f, m0, m1, ts_dec(t0), ts_dec(t1), *refs)
    if exp == "no_exception":
        ok = r[0] == "ok" and (r[1] is None or (isinstance(r[1], tuple) and len(r[1]) == 2 and all(x == x for x in r[1])))
        return None if ok else "airborne:raises_or_malformed_at_a_transition_latitude:%s" % (r[1] if r[0] != "ok" else "shape")
    if exp == "RuntimeError":
        return None if r == ("exc", "RuntimeError") else "airborne:same_parity_not_rejected"
    rlat, rlon, tlat, tlon, none_ok, band = exp[:6]
    if r[0] != "ok":
        return "airborne:raises:%s:%s" % (r[1], band)
    if r[1] is None:
        return None if none_ok else "airborne:None_in_same_NL_band:%s" % band
    try:
        lat, lon = r[1]
        ok = abs(lat - rlat) <= tlat + 1e-9 and C.lon_diff(lon, rlon) <= tlon + 1e-9
        if not ok and len(exp) > 6:
            o = exp[6]          # equal timestamps, same position: the other frame's carried position is just as good
            ok = abs(lat - o[0]) <= o[2] + 1e-9 and C.lon_diff(lon, o[1]) <= o[3] + 1e-9
    except Exception:
        return "airborne:bad_shape"
    if not ok:
        what = "lat" if abs(lat - rlat) > tlat + 1e-9 else "lon"
        return "airborne:wrong_%s:%s" % (what, band)
    if not (-180.0 - 1e-9 <= lon <= 180.0 + 1e-9) or not (-90.0 - 1e-9 <= lat <= 90.0 + 1e-9):
        return "airborne:result_outside_[-90,90]x[-180,180]"
    return None


def band_of(lat):
    a = abs(float(lat))
    if a > 87:
        return "polar(NL=1)"
    if a > 86.5:
        return "NL=2"
    if a < 0.01:
        return "equator"
    return "mid" if a < 80 else "high"


def partner_tc(tc, k):
    """another type code of the same group (the type code carries the accuracy category and may differ between the frames)."""
    grp = list(range(9, 19)) if tc <= 18 else [20, 21, 22]
    return grp[(grp.index(tc) + k) % len(grp)]


def make(latA, lonA, disp, tc, first_newer, alt12=0x5A3, hdr=0):
    """even frame at A, odd frame at B = A + disp. Returns (m_even, m_odd, enc_even, enc_odd) or None."""
    latB, lonB = C.offset_nm(latA, lonA, disp[0], disp[1])
    if not (-90 <= latB <= 90):
        return None
    e0 = C.encode(latA, lonA, 0)
    e1 = C.encode(latB, lonB, 1)
    aa = [0x406B90, 0xABCDEF, 0x000001][hdr % 3]
    m0 = F.es(C.me_airborne(tc, alt12, 0, e0["yz"], e0["xz"], ss=hdr % 4, saf=hdr % 2, t=(hdr // 2) % 2), aa, ca_for(17 + hdr % 2, hdr // 2), 17 + hdr % 2)
    df1 = 17 + (hdr // 2) % 2        # the formats of the two frames rotate independently (DF17 squitter + DF18 rebroadcast)
    m1 = F.es(C.me_airborne(partner_tc(tc, hdr % 4), alt12, 1, e1["yz"], e1["xz"], ss=(hdr + 1) % 4, saf=0, t=hdr % 2), aa, ca_for(df1, hdr // 4), df1)
    # each frame in its own spelling (upper / lower / mixed hex), rotating independently
    return vary_case(m0, hdr // 3), vary_case(m1, hdr // 5), e0, e1


def expected(e0, e1, newer_is_even):
    e = e0 if newer_is_even else e1
    same_band = C.NL(e0["rlat"]) == C.NL(e1["rlat"])
    near = C.near_transition(e0["rlat"], C.EPS) or C.near_transition(e1["rlat"], C.EPS)
    none_ok = (not same_band) or near
    if near:
        return "no_exception"   # either NL admissible: only 'no exception, well-formed result' is required
    if not same_band:
        # the decoder may return None; if it does return a position it must still be the newer frame's position
        return [float(e["rlat"]), float(e["rlon"]), float(e["dlat"]) / 131072, float(e["dlon"]) / 131072, True, "cross-band"]
    return [float(e["rlat"]), float(e["rlon"]), float(e["dlat"]) / 131072, float(e["dlon"]) / 131072, none_ok, band_of(e["rlat"])]


def w_lats(arg):
    lats, dense, seed = arg
    acc = Acc()
    k = seed
    for lat in lats:
        for lon in S.lon_alphabet(lat, False, dense):
            for disp in DISP:
                k += 1
                tc = TCS[k % len(TCS)]
                mk = make(lat, lon, disp, tc, True, alt12=(k * 37) % 4096, hdr=k)
                if mk is None:
                    continue
                m0, m1, e0, e1 = mk
                acc.out.add((e0["yz"], e0["xz"], e1["yz"], e1["xz"]))
                for newer_even in (True, False):
                    exp = expected(e0, e1, newer_even)
                    # the representation of the two timestamps rotates: ints, 0, sub-second floats, epoch floats,
                    # datetimes inside one second / across a minute boundary, negative, huge gap
                    t0, t1 = ts_pair(k + (1 if newer_even else 0) * 3, newer_even)
                    for order in (0, 1):
                        args = (m0, m1, t0, t1) if order == 0 else (m1, m0, t1, t0)
                        fn = "position" if (k + order) % 3 else "airborne_position"
                        acc.n += 1
                        if exp == "no_exception":
                            acc.c["within_1e-9_of_transition_only_totality_judged"] += 1
                            r = call(getattr(pms.adsb, fn), args[0], args[1], ts_dec(args[2]), ts_dec(args[3]))
                            if r[0] != "ok" or not (r[1] is None or (isinstance(r[1], tuple) and len(r[1]) == 2 and all(x == x for x in r[1]))):
                                acc.bad("airborne:raises_or_malformed_at_a_transition_latitude:%s" % (r[1] if r[0] != "ok" else "shape"),
                                        {"p": [fn] + list(args) + ["no_exception"]})
                            continue
                        if exp[5] == "cross-band":
                            acc.c["different_NL_bands"] += 1
                        refs = None
                        if fn == "position":
                            refs = [None, (float(lat) + 0.2, float(lon) - 0.3), (0, 0), (-float(lat) / 2 + 10.0, 179.0)][(k // 3 + order) % 4]
                        s = judge((fn,) + args + (exp, refs))
                        if s:
                            acc.bad(s + (":with_receiver_location" if refs else ""),
                                    {"p": [fn] + list(args) + [exp, refs], "true": [float(lat), float(lon)], "disp_nm": [float(disp[0]), float(disp[1])]})
                if disp == (0, 0):
                    exp = expected(e0, e1, False)
                    if isinstance(exp, list) and exp[5] != "cross-band":
                        exp = exp[:5] + [exp[5] + "+equal_timestamps",
                                         [float(e0["rlat"]), float(e0["rlon"]), float(e0["dlat"]) / 131072, float(e0["dlon"]) / 131072]]
                        for args in ((m0, m1, 6, 6), (m1, m0, 6, 6)):
                            acc.n += 1
                            s = judge(("position",) + args + (exp,))
                            if s:
                                acc.bad(s, {"p": ["position"] + list(args) + [exp], "true": [float(lat), float(lon)]})
                if k % 7 == 0 or disp == (0, 0):
                    # two frames of the SAME parity (identical, or the same aircraft a little further on) have no global
                    # solution: RuntimeError, whatever else is passed along (receiver location near / far / (0, 0))
                    latB, lonB = C.offset_nm(lat, lon, disp[0], disp[1])
                    eb, ea = C.encode(latB, lonB, 0), C.encode(lat, lon, 1)
                    m0b = F.es(C.me_airborne(partner_tc(tc, 1), 0x5A3, 0, eb["yz"], eb["xz"]), int(m0[2:8], 16), 5, 17)
                    m1a = F.es(C.me_airborne(partner_tc(tc, 2), 0x5A3, 1, ea["yz"], ea["xz"]), int(m0[2:8], 16), 5, 17)
                    for j, (a, b) in enumerate(((m0, m0), (m1, m1), (m0, m0b), (m0b, m0), (m1a, m1), (m1, m1a))):
                        refs = [None, (float(lat) + 0.2, float(lon) - 0.3), (0, 0), (-float(lat) / 2 + 10.0, 179.0)][(k // 7 + j) % 4]
                        fn = "airborne_position" if (refs is None and (k + j) % 2) else "position"
                        tt = ts_pair(k + j, j % 2 == 0)
                        acc.n += 1
                        s = judge((fn, a, b, tt[0], tt[1], "RuntimeError", refs))
                        if s:
                            acc.bad(s + (":with_receiver_location" if refs else ""), {"p": [fn, a, b, tt[0], tt[1], "RuntimeError", refs]})
    if lats:
        acc.samples.append({"lat": float(lats[0]), "even": m0, "odd": m1})
    return acc.res()


def w_sweep(arg):
    """every step-th bin of the even latitude lattice, one longitude, stationary target."""
    lo, hi, step = arg
    acc = Acc()
    binw = Fr(360, 60 * (1 << 17))
    for kbin in range(lo, hi, step):
        lat = kbin * binw
        lon = Fr(kbin % 3600, 10) - 180
        mk = make(lat, lon, (0, 0), 11, True, alt12=kbin % 4096, hdr=kbin)
        m0, m1, e0, e1 = mk
        for newer_even in (True, False):
            exp = expected(e0, e1, newer_even)
            if exp == "no_exception":
                acc.c["sweep_skipped"] += 1
                continue
            t0, t1 = (2, 1) if newer_even else (1, 2)
            acc.n += 1
            s = judge(("airborne_position", m0, m1, t0, t1, exp))
            if s:
                acc.bad(s, {"p": ["airborne_position", m0, m1, t0, t1, exp], "true": [float(lat), float(lon)]})
        acc.out.add((e0["yz"], e0["xz"], e1["yz"], e1["xz"]))
    return acc.res()


def w_indep(arg):
    """joint conditions with the fields a position decode must ignore: for positions on and next to CPR grid corners (raw
    fields 0, 1, multiples of 4096, all ones ...) and a few ordinary ones, the pair is decoded under every type code of the
    group x altitude field corners x T x surveillance status x single-antenna flag x DF17/DF18 on each frame; the answer
    must be the absolute one (judge) - and therefore the same for all of them."""
    lats = arg
    acc = Acc()
    k = 0
    for lat in lats:
        for lon in (Fr(0), Fr(9), Fr(-72), Fr(1797, 10), Fr(13, 2) + Fr(1, 4096)):
            e0, e1 = C.encode(lat, lon, 0), C.encode(lat, lon, 1)
            if C.near_transition(e0["rlat"], C.EPS) or C.near_transition(e1["rlat"], C.EPS) or C.NL(e0["rlat"]) != C.NL(e1["rlat"]):
                continue
            for tc in list(range(9, 19)) + [20, 21, 22]:
                for alt in (0, 1, 0x800, 0xFFF, 0xC38):
                    for tbit in (0, 1):
                        k += 1
                        ss, saf = k % 4, (k // 4) % 2
                        df0, df1 = 17 + k % 2, 17 + (k // 2) % 2
                        m0 = F.es(C.me_airborne(tc, alt, 0, e0["yz"], e0["xz"], ss=ss, saf=saf, t=tbit), 0x4840D6, ca_for(df0, k), df0)
                        m1 = F.es(C.me_airborne(tc, alt, 1, e1["yz"], e1["xz"], ss=(ss + 1) % 4, saf=saf, t=tbit), 0x4840D6, ca_for(df1, k), df1)
                        for newer_even in (True, False):
                            exp = expected(e0, e1, newer_even)
                            if not isinstance(exp, list):
                                continue
                            t0, t1 = (10, 9) if newer_even else (9, 10)
                            acc.n += 1
                            s = judge(("position" if k % 2 else "airborne_position", m0, m1, t0, t1, exp))
                            if s:
                                acc.bad(s + ":joint_with_ignored_fields", {"p": ["position" if k % 2 else "airborne_position", m0, m1, t0, t1, exp]})
            acc.out.add(("indep", float(lat), float(lon)))
    return acc.res()


def _pf(lat, lon, i, surface, aa):
    e = C.encode(Fr(lat).limit_denominator(10 ** 6), Fr(lon).limit_denominator(10 ** 6), i, surface)
    me = C.me_surface(7, 12, 1, 40, i, e["yz"], e["xz"]) if surface else C.me_airborne(11, 0xC38, i, e["yz"], e["xz"])
    return F.es(me, aa, 5, 17)


def w_inter(bound):
    """re-entrancy (preemption bound 1, engine.interleave): a pair decode suspended before each of its source lines while
    the decode of another aircraft's pair runs to completion; both must give the answers they give alone."""
    from engine.util import interleaved_ok
    acc = Acc()
    for fn, cases in INTER:
        bad_, n = interleaved_ok(getattr(pms.adsb, fn), cases(), bound=bound or 1)
        acc.n += n
        acc.c["interleaved_schedules"] += n
        for a_, nm, k_ in bad_:
            acc.bad("%s:answer_changes_when_another_call_runs_in_between" % "airborne", {"inter": fn, "a": list(a_), "preempt_before_line_event": k_, "bound": bound or 1})
        acc.out.add(("inter", fn))
    return acc.res()


def _air_pairs():
    return [(_pf(52.25, 3.9, 0, False, 0x4840D6), _pf(52.26, 3.91, 1, False, 0x4840D6), 10, 11),
            (_pf(-33.4, 151.2, 0, False, 0x7C1234), _pf(-33.41, 151.19, 1, False, 0x7C1234), 21, 20),
            (_pf(10.1, -75.5, 1, False, 0x0D0001), _pf(10.11, -75.49, 0, False, 0x0D0001), 5, 6)]


INTER = [("airborne_position", _air_pairs), ("position", _air_pairs)]


def w_any(t):
    if t[0] == "r":
        return w_inter(t[1])
    return {"l": w_lats, "s": w_sweep, "i": w_indep}[t[0]](t[1])


def run(ctx):
    lats = S.lat_alphabet(False, ctx.thorough)
    tasks = [("l", (c, ctx.thorough, ctx.seed)) for c in chunks(lats, 12)]
    nb = 15 * (1 << 17)
    step = 64 if ctx.thorough else 2048
    span = 1 << 16
    tasks += [("s", (lo, min(lo + span, nb + 1), step)) for lo in range(-nb, nb + 1, span)]
    corner_lats = [Fr(0), Fr(6), Fr(48), Fr(-48), Fr(6 * 4096, 131072) + 42, Fr(360, 59) * 3, Fr(5231, 100), Fr(-3391, 100), Fr(6 * 0x1F000, 131072) + 12,
                   Fr(6 * 0x1FFFF, 131072) + 18, Fr(6, 131072) + 24, Fr(86), Fr(-865, 10)]
    tasks += [("i", [la]) for la in corner_lats]
    tasks.append(("r", None))
    if ctx.thorough:
        tasks.append(("r", 2))
    ctx.pmap(w_any, tasks)
    ctx.cov["latitudes"] = len(lats)
    ctx.cov["lattice_sweep_step"] = step


def replay(case):
    if "inter" in case:
        return [(s_, c_) for s_, c_ in w_inter(case.get("bound"))["viols"] if c_["inter"] == case["inter"]][:1]
    s = judge(tuple(case["p"]))
    if not s:
        return []
    return [(s, case), (s + ":with_receiver_location", case), (s + ":joint_with_ignored_fields", case)]
