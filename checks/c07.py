"""C07 - altitude codes, exhaustive over all 8192 / 4096 codes x carriers x backgrounds."""
from engine import loader
from engine.runner import Acc
from engine.util import call, chunks, other_bits, vary_case
from spec import altitude as A
from spec import frames as F

LEVEL = "exploration"
RULE = ("all 8192 13-bit codes through common.altitude and in DF0/4/16/20 carriers, all 4096 12-bit fields in TC9-18 "
        "and TC20-22, TC5-8 -> 0; backgrounds zeros/ones/0x55/0xAA/seeded for every other bit, plus every single other "
        "bit flipped (bg-1) for a subset of codes (all codes in thorough); every sequence of <= 4 (5) decodes (with repetitions) over {zero, Q=1, Gillham, illegal, metric, 0 ft} codes through each decoder in one process; distinct = distinct (decoder, code) pairs "
        "whose expected value is not None")
ASSUMPTIONS = [
    "expected table built by encoding: Q=1 N->25N-1000; Gillham from -1200..126700 step 100 (1280 codes); "
    "M=1 metric codes and GNSS height: N*3.28084 (or N/0.3048) exactly, truncated or rounded to the nearest foot",
]

pms = loader.load("P")
TABLE, GIL = A.table13()


def m2ft_ok(n, got):
    """metres converted to feet: the exact product (either spelling of the factor), or that product truncated or rounded to
    the nearest whole foot.  A value that is none of these (e.g. a coarser factor such as 3.281, off by up to 0.66 ft at
    4000 m) is not the conversion."""
    if got is None or isinstance(got, bool):
        return False
    for v in (n * 3.28084, n / 0.3048):
        if abs(got - v) <= 1e-6 * max(1.0, abs(v)):
            return True
        if got == int(v) or got == int(v + 0.5):
            return True
    return False


def expect_ok(code, got):
    exp = TABLE[code]
    if isinstance(exp, tuple):
        return m2ft_ok(exp[1], got)
    return got == exp and (got is None or isinstance(got, int))


def cls(code):
    if code == 0:
        return "zero"
    if (code >> 6) & 1:
        return "metric"
    if (code >> 4) & 1:
        return "Q1"
    return "gillham" if code in GIL else "illegal_gillham"


def judge(kind, code, msg):
    """returns (sig or None)."""
    if kind == "bits":
        s = "{:013b}".format(code)
        r = call(pms.common.altitude, s)
        ok = r[0] == "ok" and expect_ok(code, r[1])
        return None if ok else "common.altitude:" + cls(code)
    if kind in ("altcode", "surv"):
        f = pms.common.altcode if kind == "altcode" else pms.surv.altitude
        r = call(f, msg)
        ok = r[0] == "ok" and expect_ok(code, r[1])
        return None if ok else "%s:DF%d:%s" % (kind, int(msg[:2], 16) >> 3, cls(code))
    if kind in ("adsb", "alt05"):
        f = pms.adsb.altitude if kind == "adsb" else pms.adsb.altitude05
        r = call(f, msg)
        tc = int(msg[8:10], 16) >> 3
        if 9 <= tc <= 18:
            ok = r[0] == "ok" and expect_ok(A.ac12_to_13(code), r[1])
            return None if ok else "%s:baro:%s" % (kind, cls(A.ac12_to_13(code)))
        if 20 <= tc <= 22:
            # metres converted to feet: the exact product, or rounded / truncated to whole feet (as the metric baro codes are)
            ok = r[0] == "ok" and m2ft_ok(code, r[1])
            return None if ok else "%s:gnss" % kind
        if 5 <= tc <= 8 and kind == "adsb":
            ok = r == ("ok", 0)
            return None if ok else "adsb:surface"
    raise ValueError(kind)


def _ac_frame(df, code, hdr14, mb, addr):
    rest27 = (hdr14 << 13) | code
    if df in (0, 4):
        return F.short_ap(df, rest27, addr)
    return F.long_ap(df, rest27, mb, addr)


def _es_frame(tc, c12, bg51, aa, ca, df, pi):
    # ME: TC(5) SS(2) SAF(1) ALT(12) T F LAT LON ; altitude in ME bits 9-20
    me = F.put(56, 1, 5, tc) | (bg51 & ~(0xFFF << 36) & ((1 << 51) - 1)) | F.put(56, 9, 12, c12)
    return F.es(me, aa, ca, df, pi)


def w_codes(arg):
    """one slice of codes x all carriers x backgrounds."""
    lo, hi, seed, bg1_all = arg
    acc = Acc()
    bg14 = F.backgrounds(14, seed, 2)
    bg56 = F.backgrounds(56, seed + 1, 2)
    bg24 = F.backgrounds(24, seed + 2, 2)
    bg51 = F.backgrounds(51, seed + 3, 2)
    subset = set([0, 8191, 0x10, 0x40, 0x50] + [1 << i for i in range(13)] + [(1 << i) | 0x10 for i in range(13)])

    def do(kind, code, msg):
        acc.n += 1
        msg = vary_case(msg, acc.n)
        sig = judge(kind, code, msg)
        if sig:
            acc.bad(sig, {"kind": kind, "code": code, "msg": msg})

    for code in range(lo, hi):
        do("bits", code, None)
        if TABLE[code] is not None:
            acc.out.add(("13", code))
        for df in (0, 4, 16, 20):
            for i in range(len(bg14)):
                m = _ac_frame(df, code, bg14[i], bg56[i], bg24[i])
                do("altcode", code, m)
                if df == 4:
                    do("surv", code, m)
            if bg1_all or code in subset:
                n = 56 if df in (0, 4) else 112
                base = int(_ac_frame(df, code, 0, 0, 0), 16)
                for mask in other_bits(n, list(range(1, 6)) + list(range(20, 33))):
                    do("altcode", code, F.hexn(base ^ mask, n))
        if code < 4096:
            for tc in list(range(9, 19)) + [20, 21, 22] + [5, 6, 7, 8]:
                for i in range(len(bg51)):
                    m = _es_frame(tc, code, bg51[i], bg24[i], i % 8, 17 + (i % 2), bg24[-1 - i])
                    do("adsb", code, m)
                    if tc >= 9:
                        do("alt05", code, m)
                if 9 <= tc <= 22 and TABLE[A.ac12_to_13(code)] is not None:
                    acc.out.add(("12", tc, code))
            if bg1_all or A.ac12_to_13(code) in subset:
                for tc in (11, 20):
                    base = int(_es_frame(tc, code, 0, 0, 5, 17, 0), 16)
                    # DF(1-5) TC(33-37) ALT(41-52) are the fields under test
                    for mask in other_bits(112, list(range(1, 6)) + list(range(33, 38)) + list(range(41, 53))):
                        do("adsb", code, F.hexn(base ^ mask, 112))
    if lo == 0:
        acc.samples.append({"kind": "altcode", "msg": _ac_frame(20, 0x1838 & 0x1FFF, 0, 0, 0xABCDEF)})
        acc.samples.append({"kind": "adsb", "msg": _es_frame(11, 0xC38, 0, 0x406B90, 5, 17, 0)})
    return acc.res()


SEQ_CODES = [0, A.q1_encode(1600), A.gillham_encode(51000), 0x0001, 0x0840, A.q1_encode(40)]   # zero, Q=1, Gillham, illegal Gillham, metric, 0 ft


def w_seq(arg):
    """every sequence of <= depth decodes over a small code alphabet (with repetitions) through one decoder in one
    process: every step must give the table value (last-value memos, carried state)."""
    import itertools
    kind, depth = arg
    acc = Acc()
    for L in range(1, depth + 1):
        for seq in itertools.product(range(len(SEQ_CODES)), repeat=L):
            for i, ci in enumerate(seq):
                code = SEQ_CODES[ci]
                if kind == "bits":
                    msg = None
                elif kind == "adsb":
                    if code >= 4096 or (code >> 6) & 1:
                        code = code & 0xFBF & 0xFFF
                    c12 = ((code >> 7) << 6) | (code & 0x3F)
                    msg = _es_frame(11, c12, (i * 0x1111111111) & ((1 << 51) - 1), 0x406B90, 5, 17, 0)
                    code = c12
                else:
                    msg = _ac_frame(20 if i % 2 else 4, code, i % 3, i, 0xABCDEF)
                acc.n += 1
                sig = judge(kind, code, msg)
                if sig:
                    acc.bad(sig + ":in_a_call_sequence", {"kind": kind, "code": code, "msg": msg, "sequence": [SEQ_CODES[c] for c in seq[:i + 1]]})
                    break
    acc.out.add(("seq", kind))
    return acc.res()


def w_any(t):
    return w_seq(t[1]) if t[0] == "q" else w_codes(t[1])


def run(ctx):
    step = 64
    ctx.pmap(w_any, [("c", (lo, lo + step, ctx.seed, ctx.thorough)) for lo in range(0, 8192, step)] +
             [("q", (k, 5 if ctx.thorough else 4)) for k in ("bits", "altcode", "adsb")], ambient=True)
    ctx.cov["exhaustive"] = True
    ctx.cov["bound"] = "all 8192/4096 codes; bg-1 on %s" % ("all codes" if ctx.thorough else "a 31-code subset")
    ctx.cov["gillham_codes"] = len(GIL)


def replay(case):
    sig = judge(case["kind"], case["code"], case.get("msg"))
    return [(sig, case), (sig + ":in_a_call_sequence", case)] if sig else []
