"""C12 - BDS register inference: total, format-sound, complete on plausible data; is50or60 arbitration."""
import math

from engine import loader
from engine.runner import Acc
from engine.util import call, chunks, vary_case
from spec import altitude as AL
from spec import bds_rules as BR
from spec import commb_fields as CF
from spec import frames as F
from spec import isa as I

LEVEL = "exploration"
RULE = ("totality: DF 0..31 x TC 0..31 x payload {zeros, ones, 0x55, 0xAA, every single MB bit} x mrar; soundness: for "
        "each register, each status rule x each single field bit (sign included) with the status bit clear, each "
        "reserved bit, each register-byte bit, each envelope threshold at +1 LSB; completeness: per register the product "
        "of per-field boundary alphabets inside the envelope (status on and off), in DF20 and DF21 carriers, BDS 6,0 in "
        "DF20 with Mach/IAS consistent at the carrier altitude; consistency of infer() with the individual isXX on every "
        "payload; is50or60 on all ambiguous payloads x a reference grid; distinct = distinct (class, payload)")
ASSUMPTIONS = [
    "format rules restated from Doc 9871 in spec/bds_rules.py: status clear => whole field incl. sign zero; reserved bits zero",
    "envelope thresholds are the ones the property names; tested one LSB inside (must be accepted) and outside (must be rejected)",
    "BDS 6,0 Mach/IAS gate: |dIAS| <= 15 kt must pass, >= 25 kt must be rejected in DF20 (reference ISA), in between not judged",
    "is50or60: the winner is asserted only when both velocity vectors are available, Mach/IAS consistent, and the two "
    "reference distances differ by more than 10 % and 5 m/s",
]

pms = loader.load("P")
bds = pms.bds
REGS = ["BDS10", "BDS17", "BDS20", "BDS30", "BDS40", "BDS44", "BDS45", "BDS50", "BDS60"]
ISF = {r: getattr(getattr(bds, r.lower()), "is" + r[3:]) for r in REGS}
ONES = (1 << 56) - 1


def carrier(mb, k=0, df=None, ac13=0x1838):
    d = df if df is not None else 20 + k % 2
    # the 14 header bits between DF and the altitude / identity code: FS (3 bits, every value), DR, UM
    h14 = [0, 0x3FFF, 0x1555, 1 << 11, 3 << 11, (4 << 11) | 0x2AA, (5 << 11) | 0x7FF, 6 << 11, (2 << 11) | 0x400, (1 << 11) | 0x155, (3 << 11) | 0x7FF][k % 11]
    return vary_case(F.long_ap(d, (h14 << 13) | ac13, mb, [0x406B90, 0xABCDEF, 0xFFFFFF][k % 3]), k // 3)


def infer_set(msg, mrar):
    r = call(bds.infer, msg, mrar)
    if r[0] != "ok":
        return r
    v = r[1]
    if v is None:
        return ("ok", set())
    if not isinstance(v, str):
        return ("exc", "NotAString")
    return ("ok", set(v.split(",")), v)


def judge_consistency(msg, mrar):
    """infer() must be the sorted comma-joined set of the registers whose isXX holds (44/45 only with mrar)."""
    r = infer_set(msg, mrar)
    if r[0] != "ok":
        return "infer:raises:%s" % r[1]
    if int(msg[8:22], 16) == 0:
        return None if r[1] == {"EMPTY"} else "infer:EMPTY_expected"
    want = []
    for reg in REGS:
        if reg in ("BDS44", "BDS45") and not mrar:
            continue
        x = call(ISF[reg], msg)
        if x[0] != "ok":
            return "%s:raises:%s" % (ISF[reg].__name__, x[1])
        if x[1]:
            want.append(reg)
    if r[1] != set(want):
        return "infer:differs_from_isXX_predicates"
    if want and r[2] != ",".join(sorted(want)):
        return "infer:not_sorted_comma_joined"
    return None


def judge(kind, p):
    if kind == "total":
        msg, mrar, exp = p
        r = call(bds.infer, msg, mrar)
        if r[0] != "ok":
            return "infer:raises:%s" % r[1]
        if exp is not None and r[1] != exp:
            return "infer:%s" % ("EMPTY_expected" if exp == "EMPTY" else "DF17_type_code_map")
        if r[1] is not None and not isinstance(r[1], str):
            return "infer:bad_type"
        return None
    if kind == "sound":
        reg, why, msg = p
        mrar = reg in ("BDS44", "BDS45")
        x = call(ISF[reg], msg)
        if x[0] != "ok":
            return "%s:raises:%s" % (ISF[reg].__name__, x[1])
        r = infer_set(msg, mrar)
        if r[0] != "ok":
            return "infer:raises:%s" % r[1]
        if x[1] or reg in r[1]:
            return "soundness:%s:accepted_although:%s" % (reg, why.split(" bit ")[0])
        return judge_consistency(msg, mrar)
    if kind == "complete":
        reg, msg = p
        mrar = reg in ("BDS44", "BDS45")
        r = infer_set(msg, mrar)
        if r[0] != "ok":
            return "infer:raises:%s" % r[1]
        if reg not in r[1]:
            return "completeness:%s:valid_in_envelope_payload_not_reported" % reg
        if not mrar and ("BDS44" in r[1] or "BDS45" in r[1]):
            return "infer:mrar_registers_without_mrar"
        return judge_consistency(msg, mrar) or judge_consistency(msg, not mrar)
    if kind == "consist":
        msg, mrar = p
        return judge_consistency(msg, mrar)
    if kind == "gate60":
        msg, expect = p
        x = call(ISF["BDS60"], msg)
        if x[0] != "ok":
            return "is60:raises:%s" % x[1]
        if bool(x[1]) != expect:
            return "is60:mach_ias_gate:%s" % ("consistent_pair_rejected" if expect else "inconsistent_pair_accepted")
        return None
    if kind == "5060":
        msg, spd, trk, alt = p
        both = call(ISF["BDS50"], msg)[1] and call(ISF["BDS60"], msg)[1]
        r = call(bds.is50or60, msg, spd, trk, alt)
        if r[0] != "ok":
            return "is50or60:raises:%s" % r[1]
        if not both:
            return None if r[1] is None else "is50or60:not_None_although_not_both"
        if r[1] not in ("BDS50", "BDS60", "BDS50,BDS60"):
            return "is50or60:bad_value"
        w = winner(msg, spd, trk, alt)
        if w and r[1] != w:
            return "is50or60:not_the_closest_interpretation"
        return None
    raise ValueError(kind)


def vxy(v, ang):
    return v * math.sin(math.radians(ang)), v * math.cos(math.radians(ang))


def winner(msg, spd, trk, alt):
    mb = int(msg[8:22], 16)

    def fld(name):
        row = CF.BY_NAME[name]
        st = (mb >> (56 - row.status)) & 1
        sg = (mb >> (56 - row.sign)) & 1 if row.sign else 0
        raw = (mb >> (56 - row.lsb)) & ((1 << row.nbits) - 1)
        return row.expected(st, sg, raw)
    h60, m60, i60, h50, v50 = fld("hdg60"), fld("mach60"), fld("ias60"), fld("trk50"), fld("gs50")
    if None in (h60, h50, v50) or (m60 is None and i60 is None):
        return None          # undecidable: the property lets the decoder name both
    H = alt * I.FT
    if H < -500 or H > 20000 or (m60 is not None and m60 <= 0) or (i60 is not None and i60 <= 0):
        return None
    if m60 is not None and i60 is not None and abs(i60 - I.mach2cas(m60, H) / I.KTS) > 15:
        return None
    ref = vxy(spd * I.KTS, trk)
    d50 = math.dist(vxy(v50 * I.KTS, h50), ref)
    d6 = []
    if m60 is not None:
        d6.append(math.dist(vxy(I.mach2tas(m60, H), h60), ref))
    if i60 is not None:
        d6.append(math.dist(vxy(I.cas2tas(i60 * I.KTS, H), h60), ref))
    lo60, hi60 = min(d6), max(d6)
    if d50 < lo60 / 1.1 and lo60 - d50 > 5:
        return "BDS50"
    if hi60 < d50 / 1.1 and d50 - hi60 > 5:
        return "BDS60"
    return None


DF17_MAP = {}
for _tc in range(1, 5):
    DF17_MAP[_tc] = "BDS08"
for _tc in range(5, 9):
    DF17_MAP[_tc] = "BDS06"
for _tc in list(range(9, 19)) + [20, 21, 22]:
    DF17_MAP[_tc] = "BDS05"
DF17_MAP.update({19: "BDS09", 28: "BDS61", 29: "BDS62", 31: "BDS65"})


def w_total(arg):
    dfs = arg
    acc = Acc()
    pays = [0, ONES & ((1 << 51) - 1), 0x5555555555555 & ((1 << 51) - 1), 0x2AAAAAAAAAAAA] + [1 << i for i in range(51)]
    for df in dfs:
        for tc in range(32):
            for pay in pays:
                mb = (tc << 51) | pay
                for mrar in (False, True):
                    data = ((df << 27 | 0x2ABCDEF) << 56) | mb
                    msg = F.hexn((data << 24) | 0x123456, 112)
                    exp = None
                    if mb == 0:
                        exp = "EMPTY"
                    elif df == 17 and tc in DF17_MAP:
                        exp = DF17_MAP[tc]
                    acc.n += 1
                    s = judge("total", (msg, mrar, exp))
                    if s:
                        acc.bad(s, {"kind": "total", "p": [msg, mrar, exp]})
                    if df in (20, 21) and tc % 4 == 0:
                        acc.n += 1
                        s = judge("consist", (msg, mrar))
                        if s:
                            acc.bad(s, {"kind": "consist", "p": [msg, mrar]})
            acc.out.add(("total", df, tc))
    return acc.res()


def sound_cases(thorough=False):
    """every rule is broken from EVERY kind of otherwise-valid payload (each other field available / unavailable /
    at its extremes), not only from a minimal one: a rule implemented under the wrong guard shows on some of them."""
    cases = []
    for reg, rules in BR.STATUS.items():
        bases = BR.valid(reg)
        sub = bases if thorough else bases[:: len(bases) // 24 + 1]
        for sb, a, b in rules:
            fmask = sum(BR.bit(x) for x in range(a, b + 1))
            base = next((m for m in bases if m & BR.bit(sb) and m & fmask), None) or bases[0]
            for x in (a, b, (a + b) // 2):
                for m in sub:
                    cases.append((reg, "status bit %d clear but field bit %d set" % (sb, x), (m & ~BR.bit(sb) & ~fmask) | BR.bit(x)))
            # (1) status cleared, field left non-zero
            if base & fmask:
                cases.append((reg, "status bit %d clear but field %d-%d non-zero" % (sb, a, b), base & ~BR.bit(sb)))
            # (2) status clear and exactly one field bit set
            for x in range(a, b + 1):
                cases.append((reg, "status bit %d clear but field bit %d set" % (sb, x), (base & ~BR.bit(sb) & ~fmask) | BR.bit(x)))
    for reg, bits in BR.RESERVED.items():
        bases = BR.valid(reg)
        sub = bases if (thorough or len(bases) <= 600) else bases[:: len(bases) // 600 + 1]
        for base in sub:
            for x in bits:
                cases.append((reg, "reserved bit %d set" % x, base | BR.bit(x)))
            cases.append((reg, "all reserved bits set", base | sum(BR.bit(x) for x in bits)))
    cases += BR.header_breakers()
    for reg, why, inside, outside in BR.envelope_pairs():
        cases.append((reg, "envelope %s" % why, outside))
    return cases


def w_sound(arg):
    cases = arg
    acc = Acc()
    for i, (reg, why, mb) in enumerate(cases):
        for k in range(2):
            msg = carrier(mb, i + k, df=21 if reg == "BDS60" else None)
            acc.n += 1
            s = judge("sound", (reg, why, msg))
            if s:
                acc.bad(s, {"kind": "sound", "p": [reg, why, msg]})
        acc.out.add(("sound", reg, mb))
    return acc.res()


def w_complete(arg):
    reg, mbs = arg
    acc = Acc()
    for i, mb in enumerate(mbs):
        for k in range(2):
            df = 21 if reg == "BDS60" else 20 + (i + k) % 2
            msg = carrier(mb, i + k, df=df)
            acc.n += 1
            s = judge("complete", (reg, msg))
            if s:
                acc.bad(s, {"kind": "complete", "p": [reg, msg]})
        acc.out.add(("complete", reg, mb))
    return acc.res()


def w_gate(_):
    """BDS 6,0 in DF20: Mach/IAS consistency at the carrier altitude; envelope 'inside' payloads."""
    acc = Acc()
    for reg, why, inside, outside in BR.envelope_pairs():
        msg = carrier(inside, 1, df=21)
        acc.n += 1
        s = judge("complete", (reg, msg))
        if s:
            acc.bad(s, {"kind": "complete", "p": [reg, msg]})
    # 51000 / 66000 / 70000 ft are only expressible in the 100-ft Gillham code (the 25-ft code ends at 50175 ft); the
    # last two lie above 20 km, where the atmosphere model is still isothermal (the real ISA warms by 1 K/km there:
    # less than 1 kt of IAS at these Mach numbers, far inside the gate margins used here)
    kk = 0
    for alt in (0, 5000, 20000, 35000, 41000, 51000, 66000, 70000):
        ac13 = AL.q1_encode((alt + 1000) // 25) if alt <= 50175 else AL.gillham_encode(alt)
        for mraw in range(40, 251, 15):
            mach = mraw * 2.048 / 512
            ias0 = I.mach2cas(mach, alt * I.FT) / I.KTS
            for d, expect in ((0, True), (-12, True), (12, True), (-30, False), (30, False)):
                ias = int(round(ias0 + d))
                if not (0 < ias <= 500):
                    continue
                mb = CF.bds60(ias=(1, 0, ias), mach=(1, 0, mraw))
                kk += 1
                msg = carrier(mb, kk, df=20, ac13=ac13)
                acc.n += 1
                s = judge("gate60", (msg, expect))
                if s:
                    acc.bad(s, {"kind": "gate60", "p": [msg, expect]})
                if expect:
                    acc.n += 1
                    s = judge("complete", ("BDS60", msg))
                    if s:
                        acc.bad(s, {"kind": "complete", "p": ["BDS60", msg]})
                acc.out.add(("gate", alt, mraw, d))
    return acc.res()


def w_5060(arg):
    mbs = arg
    acc = Acc()
    for i, mb in enumerate(mbs):
        msg = carrier(mb, i, df=21)
        for spd in (100, 250, 450):
            for trk in (0, 90, 180, 270, 359):
                for alt in (5000, 35000):
                    acc.n += 1
                    s = judge("5060", (msg, spd, trk, alt))
                    if s:
                        acc.bad(s, {"kind": "5060", "p": [msg, spd, trk, alt]})
        acc.out.add(("5060", mb))
    return acc.res()


def constructed_5060():
    """payloads that are valid BDS 5,0 *and* BDS 6,0 with every velocity field available, Mach/IAS consistent at the
    reference altitude; each paired with references equal to its 5,0 reading and to its 6,0 reading."""
    out = []
    for alt in (5000, 20000, 35000):
        for mraw in (100, 150, 200):
            mach = mraw * 2.048 / 512
            ias = int(round(I.mach2cas(mach, alt * I.FT) / I.KTS))
            if not (0 < ias < 1024):
                continue
            for sign in (0, 1):
                for rraw in ((10, 100, 250) if sign == 0 else (262, 400, 500)):
                    mb = BR.bit(1) | BR.field(2, 1, sign) | BR.field(3, 9, rraw) | BR.bit(12) | BR.bit(13) | \
                        BR.field(14, 10, ias) | BR.bit(24) | BR.field(25, 10, mraw)
                    gs, trk = mraw * 2, ((ias - 1024) * 90 / 512.0) % 360
                    hraw = rraw * 2 + 1
                    hdg = ((hraw - 1024 if sign else hraw) * 90 / 512.0) % 360
                    tas = I.mach2tas(mach, alt * I.FT) / I.KTS
                    out.append((mb, gs, trk, alt))
                    out.append((mb, tas, hdg, alt))
                    # IAS not available in the 6,0 reading (status bit 13 clear, field zero) = track exactly 0 in the 5,0 reading
                    mb2 = BR.bit(1) | BR.field(2, 1, sign) | BR.field(3, 9, rraw) | BR.bit(12) | BR.bit(24) | BR.field(25, 10, mraw)
                    out.append((mb2, gs, 0.0, alt))
                    out.append((mb2, gs + 15, 2.0, alt))
                    out.append((mb2, tas, hdg, alt))
    # the two readings close together: heading 0.18 deg / track 0, so that they differ only by TAS(Mach, altitude) vs
    # ground speed (0.3 .. 0.6 kt per count): the reference sits exactly on the 6,0 reading AT THE SUPPLIED ALTITUDE -
    # an arbiter that converts Mach at any other altitude (the reply's own, say) picks the other one
    for alt in (1000, 5000, 20000, 38000):
        for mraw in (150, 200, 225, 240):
            mb3 = BR.bit(1) | BR.bit(12) | BR.bit(24) | BR.field(25, 10, mraw)
            out.append((mb3, I.mach2tas(mraw * 2.048 / 512, alt * I.FT) / I.KTS, 90 / 512.0, alt))
            out.append((mb3, mraw * 2.0, 0.0, alt))
    return out


def w_5060c(_):
    acc = Acc()
    nwin = 0
    for i, (mb, spd, trk, alt) in enumerate(constructed_5060()):
        # the reply in a DF21 carrier and in DF20 carriers whose own altitude field is unknown / 1000 ft / 38000 ft: the
        # arbitration is against the SUPPLIED reference, whatever the reply itself says about altitude
        for msg in (carrier(mb, i, df=21), carrier(mb, i, df=20, ac13=0), carrier(mb, i, df=20, ac13=AL.q1_encode(2000 // 25)),
                    carrier(mb, i, df=20, ac13=AL.q1_encode(39000 // 25))):
            acc.n += 1
            if winner(msg, spd, trk, alt):
                nwin += 1
            s = judge("5060", (msg, spd, trk, alt))
            if s:
                acc.bad(s, {"kind": "5060", "p": [msg, spd, trk, alt]})
        acc.out.add(("5060c", mb, round(spd), round(trk)))
    acc.c["is50or60_cases_with_decidable_winner"] = nwin
    return acc.res()


def seq_thunks(tag=None):
    """the same MB under different headers (DF20 at two altitudes, DF21), mrar on/off, and other registers in between."""
    th = []
    mraw = 195                                          # Mach 0.78
    ias35 = int(round(I.mach2cas(mraw * 2.048 / 512, 35000 * I.FT) / I.KTS))
    mb = CF.bds60(ias=(1, 0, ias35), mach=(1, 0, mraw))
    hi = carrier(mb, 0, df=20, ac13=AL.q1_encode((35000 + 1000) // 25))
    lo = carrier(mb, 0, df=20, ac13=AL.q1_encode((5000 + 1000) // 25))
    d21 = carrier(mb, 0, df=21)
    th.append(("bds60_df20_consistent_alt", (lambda m=hi: judge("gate60", (m, True)) or judge("complete", ("BDS60", m)))))
    th.append(("bds60_df20_inconsistent_alt", (lambda m=lo: judge("gate60", (m, False)) or judge("consist", (m, False)))))
    th.append(("bds60_df21", (lambda m=d21: judge("complete", ("BDS60", m)))))
    th.append(("bds50", (lambda m=carrier(CF.bds50(), 1, df=20): judge("complete", ("BDS50", m)))))
    th.append(("bds40_mrar", (lambda m=carrier(CF.bds40(), 2, df=21): judge("consist", (m, True)) or judge("complete", ("BDS40", m)))))
    bad = carrier(CF.bds50(gs=(1, 0, 301), tas=(1, 0, 250)), 0, df=21)
    th.append(("bds50_gs_out_of_envelope", (lambda m=bad: judge("sound", ("BDS50", "envelope GS>600kt", m)))))
    return th


def w_seqx(depth):
    from engine.util import explore_sequences
    acc = Acc()
    explore_sequences(acc, seq_thunks(), depth, "infer")
    return acc.res()


def w_any(t):
    if t[0] == "q":
        return w_seqx(t[1])
    if t[0] == "y":
        return w_5060c(None)
    return {"t": w_total, "s": w_sound, "c": w_complete, "g": w_gate, "x": w_5060}[t[0]](t[1])


def run(ctx):
    tasks = [("t", [df]) for df in range(32)] + [("g", None), ("y", None), ("q", 4 if ctx.thorough else 3)]
    sc = list(dict.fromkeys(sound_cases(ctx.thorough)))
    ctx.cov["rule_breaking_payloads"] = len(sc)
    tasks += [("s", c) for c in chunks(sc, 400)]
    amb = []
    for reg in REGS:
        mbs = BR.valid(reg)
        if not ctx.thorough and len(mbs) > 1200:
            mbs = mbs[::len(mbs) // 1200 + 1]
        tasks += [("c", (reg, c)) for c in chunks(mbs, 150)]
        if reg in ("BDS50", "BDS60"):
            amb += mbs
    both = [mb for mb in amb if ISF["BDS50"](carrier(mb, 0, df=21)) and ISF["BDS60"](carrier(mb, 0, df=21))]
    neither = amb[:40]
    ctx.cov["ambiguous_50_60_payloads"] = len(both)
    tasks += [("x", c) for c in chunks((both if ctx.thorough else both[:600]) + neither, 40)]
    ctx.pmap(w_any, tasks, ambient=True)
    ctx.samples.append({"BDS50": carrier(CF.bds50(), 0, df=20), "infer": bds.infer(carrier(CF.bds50(), 0, df=20))})


def replay(case):
    if case["kind"] == "seqx":
        from engine.util import replay_sequence
        s = replay_sequence(seq_thunks(), case["sequence"])
        return [(s, case)] if s else []
    s = judge(case["kind"], tuple(case["p"]))
    return [(s, case)] if s else []
