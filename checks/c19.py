"""C19 - software demodulator: exhaustive buffers over a frame/offset/amplitude/noise/gap alphabet and
buffer histories through the real RtlReader._process_buffer (instance created without hardware)."""
import itertools

from engine import loader
from engine.runner import Acc
from engine.util import chunks
from spec import crc as R
from spec import frames as F
from spec import ppm as P

LEVEL = "model_checking"
RULE = ("every buffer = lead noise (offset 0..199: every residue of the 200-sample estimator window) + frames (1, 2 or 3 from the alphabet) separated by gaps of "
        "{1 frame length, +1 sample, 3 frame lengths} + trailing noise, pulse amplitude per frame in {0.3,0.5,1.0,1.4}, "
        "noise peak in {0,-40,-20,-14.5,-13,-10.5,-10} dB relative to the weakest pulse x shape {const, alternating, LCG}; "
        "histories: sequences of 2 and 3 (4) such buffers through one reader object (state = remainder + running noise "
        "floor); every buffer is one real _process_buffer call; distinct = distinct (frames, offset, amps, noise, gap)")
ASSUMPTIONS = [
    "pulses have exactly the stated amplitude; noise is present on the low samples and in the gaps only ('cleanly modulated')",
    "'at least 10 dB above the noise floor' is taken as: the noise peak is at least 10 dB below the weakest pulse",
    "'one frame length of noise' is read as the whole preceding frame incl. its 8 us preamble (64 us after a short, 120 us after a long frame). Under the shorter reading (56 us = data block only) the unchanged reader itself drops a weak short frame followed by a >3x stronger one, because its per-frame threshold window of 113 bit periods then reaches the next preamble - tried on 2026-10-05 and not adopted",
    "every frame lies completely inside one buffer; the noise after the last frame ranges from 0 samples to several frame lengths",
    "every buffer contains at least one noise-only aligned 100 us window (the noise estimator takes the quietest window; real buffers hold 100 ms)",
]

pms = loader.load("P")
from pyModeS.extra.rtlreader import RtlReader  # noqa: E402


def _mk_frames():
    fr = {}
    fr["DF17a"] = "8D406B902015A678D4D220AA4BDA"
    fr["DF17ones"] = F.es((11 << 51) | ((1 << 51) - 1), 0xFFFFFF, 7, 17)
    fr["DF17zeros"] = F.es(F.me(1), 0x000001, 0, 17)
    fr["DF17alt"] = F.es((0b01010 << 51) | (0x2AAAAAAAAAAAA & ((1 << 51) - 1)), 0xAAAAAA, 2, 17)
    fr["DF20"] = F.long_ap(20, 0x0001838, 0x201584F2346820, 0x406B90)
    fr["DF21"] = F.long_ap(21, 0x7FFFFFF, (1 << 56) - 1, 0xFFFFFF)
    fr["DF4"] = F.short_ap(4, 0x0001838, 0x406B90)
    fr["DF5"] = F.short_ap(5, 0x7FFFFFF, 0xABCDEF)
    fr["DF5zeros"] = F.short_ap(5, 0, 0)
    fr["DF11"] = F.df11(0x406B90, 5, 0)
    fr["DF11alt"] = F.df11(0xAAAAAA, 2, 37)
    # frames whose last 24 bits are all zero (legal: an AP field reads 000000 when the address equals the parity of the data
    # bits; a squitter's parity can be 000000) - and one that BEGINS with zero nibbles after the format bits
    r5 = 0x00516D4 & 0x7FFFFFF
    fr["DF5tail0"] = F.short_ap(5, r5, R.parity((5 << 27) | r5, 32))
    d20 = (((20 << 27) | 0x0001838) << 56) | 0x201584F2346820
    fr["DF20tail0"] = F.long_ap(20, 0x0001838, 0x201584F2346820, R.parity(d20, 88))
    fr["DF11tail0"] = F.hexn(((((11 << 3) | 5) << 24) | R.solve_low24((11 << 3) | 5, 8, 0)) << 24, 56)
    pre17 = ((((17 << 3) | 5) << 24) | 0x40621D) << 32 | 0x58C382D6
    fr["DF17tail0"] = F.hexn(((pre17 << 24) | R.solve_low24(pre17, 64, 0)) << 24, 112)
    # DF17 with a flipped bit must never be returned; DF18 / DF16 / DF0 are distractors (may or may not be reported)
    bad = int(fr["DF17a"], 16) ^ (1 << 40)
    fr["DF17badcrc"] = "%028X" % bad
    v = int(fr["DF17a"], 16)
    fr["DF17bad_parity"] = "%028X" % (v ^ (1 << 7))                    # one flipped bit inside the parity field
    fr["DF17bad_two"] = "%028X" % (v ^ (1 << 30) ^ (1 << 61))           # two flips in the ME field
    fr["DF17bad_burst"] = "%028X" % (v ^ (0xC3A5F1 << 28))              # a 24-bit burst inside the ME field
    fr["DF18"] = F.es(F.me(11, rest=0x123456789AB), 0x406B90, 5, 18)
    fr["DF16"] = F.long_ap(16, 0x0001838, 0x12345678, 0x406B90)
    fr["DF0"] = F.short_ap(0, 0x0001838, 0x406B90)
    return fr


FRAMES = _mk_frames()
BAD17 = ("DF17badcrc", "DF17bad_parity", "DF17bad_two", "DF17bad_burst")
ACCEPT = [k for k in FRAMES if k not in BAD17 + ("DF18", "DF16", "DF0")]
AMPS = [0.3, 0.5, 1.0, 1.4]
NOISE_DB = [None, -40, -20, -14.5, -13, -10.5, -10]
SHAPES = ["const", "alt", "lcg"]


def build(spec):
    """spec = {frames:[names], offset, amps:[..], db, shape, gap:'L'|'L+1'|'3L'} -> (samples, expected)."""
    names, amps = spec["frames"], spec["amps"]
    level = 0.0 if spec["db"] is None else min(amps) * 10 ** (spec["db"] / 20.0)
    ng = P.noise_gen(spec["shape"], level, spec.get("nseed", 1))
    buf = [next(ng) for _ in range(spec["offset"])]
    exp = []
    for idx, (nm, a) in enumerate(zip(names, amps)):
        h = FRAMES[nm]
        mod_ = P.modulate(h, a, ng)
        for b_, (fx, fy) in (spec.get("distort") or {}).get(str(idx), {}).items():
            # a distorted bit: its two half-microsecond samples carry the given fractions of the frame's pulse amplitude
            mod_[16 + 2 * int(b_)] = a * fx
            mod_[16 + 2 * int(b_) + 1] = a * fy
        buf += mod_
        L = P.frame_samples(h)
        if idx < len(names) - 1:
            g = {"L": L, "L+1": L + 1, "3L": 3 * L}[spec["gap"]]
            buf += [next(ng) for _ in range(g)]
        if nm in ACCEPT:
            exp.append(h.upper())
    if spec.get("distort"):
        exp = None          # outside the premise of the 'returns exactly' clause: only the never-a-bad-DF17 clause is judged
    tail = spec.get("tail", 480)
    if tail < 480 and spec["gap"] == "3L" and len(names) >= 2:
        pass        # the long gap between the frames already holds a noise-only aligned 100 us window: keep offset and tail exact
    elif tail < 480:
        # the noise estimator takes the quietest ALIGNED 100 us (200-sample) window of the buffer: with a short tail a
        # noise-only window must exist elsewhere, so 400 samples of lead noise are prepended (real buffers hold 100 ms)
        buf = [next(ng) for _ in range(400)] + buf
    buf += [next(ng) for _ in range(tail)]
    return buf, exp


def source_lengths():
    """buffer positions the reader module itself names: every numeric module constant between 1 000 and 400 000 samples
    (buffer_size, read_size ...) and the products / sums of two int literals of the module in that range - a reader that
    works chunk by chunk has to get its chunk length from one of them."""
    import pyModeS.extra.rtlreader as M
    from engine.util import source_words
    vals = set()
    for k_, v in vars(M).items():
        if isinstance(v, (int, float)) and not isinstance(v, bool) and 1000 <= v <= 400000 and v == int(v):
            vals.add(int(v))
    ints = [x for x in source_words(["extra/rtlreader.py"])["ints"] if 2 <= x <= 400000]
    for a in ints:
        for b in ints:
            if 1000 <= a * b <= 400000:
                vals.add(a * b)
    mod = sorted(v for k_, v in vars(M).items() if isinstance(v, (int, float)) and not isinstance(v, bool) and 1000 <= v <= 400000 and v == int(v))
    # module constants first (all of them), then the largest computed ones
    rest = [v for v in sorted(vals, reverse=True) if v not in mod]
    return [int(v) for v in mod] + rest[:6]


def long_buffers():
    """one frame straddling / ending at / starting at each such position inside a buffer long enough to contain it, with an
    ordinary frame well before it: exactly those two frames must come back."""
    out = []
    for P in source_lengths():
        for nm in ("DF17a", "DF11"):
            pass
        for d in (-250, -130, -17, -9, -5, -1, 0, 1, 2, 16, 200):
            for nm in ("DF17a", "DF11"):
                out.append({"P": P, "d": d, "frame": nm})
    return out


def build_long(spec):
    ng = P.noise_gen("lcg", 0.01, 7)
    start = spec["P"] + spec["d"]
    h1, h2 = FRAMES["DF20"], FRAMES[spec["frame"]]
    buf = [next(ng) for _ in range(300)] + P.modulate(h1, 0.8, ng)
    if start < len(buf) + 300:
        return None, None
    buf += [next(ng) for _ in range(start - len(buf))]
    buf += P.modulate(h2, 0.9, ng)
    buf += [next(ng) for _ in range(1500)]
    return buf, [h1.upper(), h2.upper()]


def new_reader():
    r = RtlReader()          # the real constructor (the SDR device is a stand-in module, see engine.loader.fake_rtlsdr)
    r.signal_buffer = []
    r.noise_floor = 1e6
    r.debug = False
    return r


def feed(reader, samples):
    reader.signal_buffer.extend(samples)
    try:
        out = reader._process_buffer()
    except Exception as e:  # noqa: BLE001
        return ("exc", type(e).__name__)
    return [m[0] for m in out]


def snr_class(db):
    if db is None:
        return "no_noise"
    return "noise_peak_%s_dB" % ("10-14" if db > -14 else "below_-14")


def judge_history(specs):
    """feed the buffers in order through one reader; returns signature or None."""
    r = new_reader()
    for k, spec in enumerate(specs):
        buf, exp = build(spec)
        got = feed(r, buf)
        cls = snr_class(spec["db"])
        if isinstance(got, tuple):
            return "demod:exception:%s" % got[1]
        for g in got:
            if (int(g[:2], 16) >> 3) == 17 and len(g) == 28 and R.remainder(int(g, 16), 112) != 0:
                return "demod:returned_DF17_with_bad_checksum"
        # frames of formats the property does not list (DF18, DF16, DF0) are distractors: whether the reader reports them is
        # not constrained (a reader that admits valid DF18 squitters still has the property), so they are removed from
        # the answer before it is compared; a DF17 with a bad checksum is never acceptable (checked above)
        if exp is None or any(n in BAD17 for n in spec["frames"]):
            # a buffer that contains a corrupted squitter (or distorted pulses) is outside the premise of the 'returns
            # exactly those frames' clause - a reader that repairs the frame and hands over the corrected, checksum-zero
            # squitter has the property just as one that drops it - so only the unconditional clause was judged (above)
            continue
        free = {FRAMES[n].upper() for n in spec["frames"] if n in ("DF18", "DF16", "DF0")}
        if free:
            got = [g for g in got if g not in free]
        if got != exp:
            if len(got) < len(exp) or any(e not in got for e in exp):
                kind = "frame_dropped"
            elif len(got) > len(exp):
                kind = "spurious_frame"
            else:
                kind = "wrong_content"
            lens = "short" if all(len(FRAMES[n]) == 14 for n in spec["frames"]) else "long" if all(len(FRAMES[n]) == 28 for n in spec["frames"]) else "mixed"
            return "demod:%s:%s:%s%s" % (kind, cls, lens, ":buffer%d" % k if k else "")
    return None


def w_long(specs):
    acc = Acc()
    acc.cov["states"] = 0
    acc.cov["transitions"] = 0
    for spec in specs:
        buf, exp = build_long(spec)
        if buf is None:
            continue
        acc.n += 1
        acc.cov["transitions"] += 1
        got = feed(new_reader(), buf)
        if isinstance(got, tuple):
            acc.bad("demod:exception:%s:long_buffer" % got[1], {"long": spec})
        elif got != exp:
            acc.bad("demod:%s:long_buffer" % ("frame_dropped" if len(got) < len(exp) else "wrong_content"), {"long": spec})
        acc.out.add(("long", spec["P"], spec["d"], spec["frame"]))
    return acc.res()


def w_specs(arg):
    if arg and isinstance(arg[0], dict) and "P" in arg[0]:
        return w_long(arg)
    acc = Acc()
    acc.cov["states"] = 0
    acc.cov["transitions"] = 0
    states = set()
    for specs in arg:
        acc.n += 1
        acc.cov["transitions"] += len(specs)
        s = judge_history(specs)
        if s:
            acc.bad(s, {"history": specs})
        for sp in specs:
            acc.out.add((tuple(sp["frames"]), sp["offset"], tuple(sp["amps"]), sp["db"], sp["shape"], sp["gap"]))
            states.add((sp["db"], sp["shape"], min(sp["amps"])))
    acc.cov["states"] = len(states)
    if arg:
        acc.samples.append({"history": arg[0]})
    return acc.res()


def gen(ctx):
    hs = []
    k = 0
    # single frames: all frames x all 64 offsets x all amplitudes x all noise
    for nm in FRAMES:
        # every start residue modulo the 100 us (200-sample) window the noise estimator - and anything else that works
        # window by window - is aligned to, not only the first 64
        for off in range(200):
            for a in AMPS:
                for db in NOISE_DB:
                    k += 1
                    shapes = SHAPES if (ctx.thorough or off < 2) else [SHAPES[k % 3]]
                    for sh in shapes:
                        if db is None and sh != "const":
                            continue
                        hs.append([{"frames": [nm], "offset": off, "amps": [a], "db": db, "shape": sh, "gap": "L", "nseed": ctx.seed + 1}])
    # last frame close to the end of the buffer: frames lie completely inside, trailing noise 0 .. 240 samples
    for nm in FRAMES:
        for tail in (0, 1, 2, 40, 112, 113, 114, 226, 240):
            for off in (0, 1, 7):
                for a in (0.3, 1.4):
                    for db in (None, -20, -10):
                        k += 1
                        hs.append([{"frames": [nm], "offset": off, "amps": [a], "db": db, "shape": SHAPES[k % 3], "gap": "L",
                                    "nseed": ctx.seed + 1, "tail": tail}])
                        hs.append([{"frames": ["DF17a", nm], "offset": off, "amps": [1.0, a], "db": db, "shape": SHAPES[k % 3], "gap": "L+1",
                                    "nseed": ctx.seed + 1, "tail": tail}])
    # first frame exactly at the start of the buffer AND last frame flush with (or very near) its end
    for a_, b_ in itertools.product(["DF17a", "DF4", "DF11", "DF20", "DF5zeros", "DF17ones"], repeat=2):
        for off in (0, 1):
            for tail in (0, 1, 2, 113):
                for amps in ((1.0, 1.4), (1.4, 0.3), (0.5, 0.5), (0.3, 1.4)):
                    for db in (None, -20):
                        k += 1
                        hs.append([{"frames": [a_, b_], "offset": off, "amps": list(amps), "db": db, "shape": SHAPES[k % 3], "gap": "3L",
                                    "nseed": ctx.seed + 1, "tail": tail}])
    # two frames
    sub = ["DF17a", "DF17ones", "DF20", "DF4", "DF5zeros", "DF11alt", "DF17badcrc", "DF18"]
    names2 = list(FRAMES) if ctx.thorough else sub
    for a, b in itertools.product(names2, repeat=2):
        for off in (0, 1):
            for aa in AMPS:
                for ab in AMPS:
                    for db in NOISE_DB:
                        for gap in ("L", "L+1", "3L"):
                            k += 1
                            hs.append([{"frames": [a, b], "offset": off, "amps": [aa, ab], "db": db, "shape": SHAPES[k % 3],
                                        "gap": gap, "nseed": ctx.seed + 1}])
    if ctx.thorough:
        for a, b, c in itertools.product(sub, repeat=3):
            for off in (0, 1):
                for amps in ((0.3, 1.4, 0.3), (1.4, 0.3, 1.0), (0.5, 0.5, 0.5)):
                    for db in NOISE_DB:
                        k += 1
                        hs.append([{"frames": [a, b, c], "offset": off, "amps": list(amps), "db": db, "shape": SHAPES[k % 3],
                                    "gap": ("L", "L+1", "3L")[k % 3], "nseed": ctx.seed + 1}])
    # histories: sequences of buffers through one reader (noise floor low->high, high->low, zero first)
    seg = []
    for nm in ("DF17a", "DF4", "DF21", "DF11"):
        for a in (0.3, 1.4):
            for db in (None, -40, -13, -10):
                seg.append({"frames": [nm], "offset": 3, "amps": [a], "db": db, "shape": "lcg", "gap": "L", "nseed": ctx.seed + 2})
    depth = 3 if ctx.thorough else 2
    for combo in itertools.product(seg, repeat=2):
        hs.append(list(combo))
    # a corrupted squitter after the reader has heard the same transponder (all-call reply DF11, good DF17, DF4/20 replies):
    # in one buffer and in the next one; whatever the reader remembers about an address must not soften the parity check
    for bad in BAD17:
        for first in (["DF11"], ["DF17a"], ["DF11", "DF17a"], ["DF20", "DF4"]):
            for a in (0.5, 1.4):
                for db in (None, -13):
                    k += 1
                    one = {"frames": first + [bad], "offset": 5, "amps": [a] * (len(first) + 1), "db": db, "shape": SHAPES[k % 3], "gap": "L", "nseed": ctx.seed + 3}
                    hs.append([one])
                    b1 = {"frames": first, "offset": 5, "amps": [a] * len(first), "db": db, "shape": SHAPES[k % 3], "gap": "L", "nseed": ctx.seed + 3}
                    b2 = {"frames": [bad, "DF17a"], "offset": 9, "amps": [a, a], "db": db, "shape": SHAPES[k % 3], "gap": "3L", "nseed": ctx.seed + 4}
                    hs.append([b1, b2])
                    hs.append([b1, b1, b2])
    # long runs: n frames at one amplitude followed by frames at another (every ordered amplitude pair), in one buffer and
    # spread over several buffers of one reader - anything that adapts to the recent traffic (a tracked pulse level, an
    # automatic gain, a running average) needs a run of a certain length before it shows
    for n_ in (6, 12, 24, 48):
        for a1 in AMPS:
            for a2 in AMPS:
                for nm, nm2 in (("DF17a", "DF11"), ("DF4", "DF20")):
                    for db in (None, -13):
                        k += 1
                        one = {"frames": [nm] * n_ + [nm2, nm, nm2], "offset": 5 + k % 9, "amps": [a1] * n_ + [a2, a2, a2], "db": db,
                               "shape": SHAPES[k % 3], "gap": "L", "nseed": ctx.seed + 6}
                        hs.append([one])
                        if n_ <= 24:
                            per = n_ // 3
                            bufs = [{"frames": [nm] * per, "offset": 5 + (k + j) % 9, "amps": [a1] * per, "db": db, "shape": SHAPES[k % 3],
                                     "gap": "L", "nseed": ctx.seed + 6 + j} for j in range(3)]
                            last = {"frames": [nm2, nm, nm2, nm], "offset": 7, "amps": [a2, a1, a2, a2], "db": db, "shape": SHAPES[k % 3],
                                    "gap": "3L", "nseed": ctx.seed + 9}
                            hs.append(bufs + [last])
    # distorted pulses (fading, interference): one or two bits of a good squitter whose two samples carry every pair of
    # fractions of the pulse amplitude from an alphabet around the reader's own thresholds - whatever the reader makes of
    # such a frame (drops it, repairs it), it must never hand over a DF17 whose checksum is non-zero
    FR = [0.0, 0.2, 0.31, 0.33, 0.4, 0.49, 0.51, 0.6, 0.79, 1.0, 1.3]
    POS = [5, 8, 9, 31, 32, 40, 63, 87, 88, 100, 110, 111]
    for nm in ("DF17a", "DF17alt"):
        for b_ in POS:
            for fx in FR:
                for fy in FR:
                    for a, db in ((0.5, None), (1.4, -13), (1.0, -40)):
                        k += 1
                        hs.append([{"frames": [nm], "offset": 5 + k % 7, "amps": [a], "db": db, "shape": SHAPES[k % 3], "gap": "L",
                                    "nseed": ctx.seed + 5, "distort": {"0": {str(b_): [fx, fy]}}}])
        for b_, c_ in itertools.combinations(POS, 2):
            for fx in FR[2:9]:
                for fy in FR[2:9]:
                    k += 1
                    hs.append([{"frames": [nm], "offset": 5 + k % 7, "amps": [[0.5, 1.4][k % 2]], "db": [None, -13][k // 2 % 2], "shape": SHAPES[k % 3],
                                "gap": "L", "nseed": ctx.seed + 5, "distort": {"0": {str(b_): [fx, fy], str(c_): [fy, fx]}}}])
    # three (thorough: also four) buffers through one reader over a reduced alphabet: anything that looks at more than
    # the previous buffer (a window of recent noise estimates, a counter) needs at least three calls to show
    seg3 = [s_ for s_ in seg if s_["frames"][0] in ("DF17a", "DF4") and s_["db"] in (None, -10)]
    for combo in itertools.product(seg3, repeat=3):
        hs.append(list(combo))
    if ctx.thorough:
        for combo in itertools.product(seg[::3], repeat=3):
            hs.append(list(combo))
        for combo in itertools.product(seg3, repeat=4):
            hs.append(list(combo))
    return hs


def run(ctx):
    hs = gen(ctx)
    ctx.cov["states"] = 0
    ctx.cov["transitions"] = 0
    ctx.pmap(w_specs, chunks(hs, 400) + chunks(long_buffers(), 6))
    ctx.cov["traces_validated_against_impl"] = ctx.cov["transitions"]
    ctx.cov["histories"] = len(hs)
    ctx.cov["exhaustive"] = True
    ctx.cov["explanation"] = ("states = distinct (noise level, shape, weakest amplitude) environments the reader's noise-floor "
                              "state was driven through; transitions = real _process_buffer calls")


def replay(case):
    if "long" in case:
        return w_long([case["long"]])["viols"]
    s = judge_history(case["history"])
    return [(s, case)] if s else []
