"""C14 - decoders are total and type-guarded on well-formed frames; dispatchers route by type code."""
import contextlib
import io
import itertools

from engine import loader
from engine.runner import Acc
from engine.util import call, chunks
from spec import cpr as C
from spec import frames as F
from spec import crc as R
from spec import bds_rules as BR
from fractions import Fraction as Fr

LEVEL = "exploration"
RULE = ("every public callable (adsb.__all__, commb.__all__, bds53, surv, allcall, common message functions, tell, "
        "bds.infer, bds.is50or60, dispatchers with extra arguments from small alphabets) x {14,28} hex digits x DF 0..31 "
        "x TC 0..31 x subtype 0..7 x payload {zeros, ones, 0x55, 0xAA, seeded} (quick: payload rotated with the index, "
        "thorough: multiplied); plus, per TC, all 2^11 values of ME bits 6-16 x {zero, one} tails through the decoders guarded for that TC; oracle: only RuntimeError may escape, values only inside the documented DF/TC/subtype "
        "guard, dispatchers equal the routed decoder; distinct = distinct (function, length, DF, TC, subtype)")
ASSUMPTIONS = ["re-entrancy: a decoder call suspended at a source-line boundary while another call runs to completion (one preemption, engine/interleave.py) must still give its isolated answer - the properties are read as covering calls made from several threads",
               
    "guard table written from the decoders' docstrings and module headers (function -> accepted DF / TC / TC29 subtype); "
    "functions whose documentation names no format (oe_flag, icao, df, typecode, commb field decoders, isXX, crc ...) are "
    "judged only on 'no exception other than RuntimeError'",
    "inside its guard a decoder may still raise RuntimeError (e.g. same-parity pairs, ACAS-RA subtype of TC28)",
    "DF >= 24 is clamped to 24 by df(); a frame counts as ADS-B when its DF field is 17 or 18 and it has 28 digits",
]

pms = loader.load("P")
import pyModeS.decoder.bds.bds53 as bds53  # noqa: E402

TC_POS_AIR = set(range(9, 19)) | {20, 21, 22}
TC_SURF = set(range(5, 9))
ADSB_GUARD = {
    "callsign": (set(range(1, 5)), None), "category": (set(range(1, 5)), None),
    "surface_velocity": (TC_SURF, None), "airborne_velocity": ({19}, None), "altitude_diff": ({19}, None),
    "nuc_v": ({19}, None), "nac_v": ({19}, None),
    "altitude05": (TC_POS_AIR, None), "altitude": (TC_POS_AIR | TC_SURF, None),
    "velocity": (TC_SURF | {19}, None), "speed_heading": (TC_SURF | {19}, None),
    "position_with_ref": (TC_POS_AIR | TC_SURF, None),
    "airborne_position_with_ref": (TC_POS_AIR, None), "surface_position_with_ref": (TC_SURF, None),
    "version": ({31}, None), "nic_s": ({31}, None), "nic_a_c": ({31}, None),
    "nuc_p": (TC_POS_AIR | TC_SURF, None), "nic_v1": (TC_POS_AIR | TC_SURF, None), "nic_v2": (TC_POS_AIR | TC_SURF, None),
    "nic_b": (set(range(9, 19)), None), "nac_p": ({29, 31}, None), "sil": ({29, 31}, None),
    "emergency_squawk": ({28}, None), "is_emergency": ({28}, None), "emergency_state": ({28}, None),
    "selected_altitude": ({29}, {1}), "baro_pressure_setting": ({29}, {1}), "selected_heading": ({29}, {1}),
    "autopilot": ({29}, {1}), "vnav_mode": ({29}, {1}), "altitude_hold_mode": ({29}, {1}), "approach_mode": ({29}, {1}),
    "lnav_mode": ({29}, {1}), "tcas_operational": ({29}, {0, 1}),
    "target_altitude": ({29}, {0}), "vertical_mode": ({29}, {0}), "horizontal_mode": ({29}, {0}),
    "target_angle": ({29}, {0}), "tcas_ra": ({29}, {0}), "emergency_status": ({29}, {0}),
}
EXTRA = {"nic_v1": [(0,), (1,)], "nic_v2": [(0, 0), (1, 1), (0, 1), (1, 0)], "sil": [(None,), (2,), (1,)],
         "velocity": [(False,), (True,)], "airborne_velocity": [(True,)], "surface_velocity": [(True,)],
         "position_with_ref": [(52.0, 4.0)], "airborne_position_with_ref": [(52.0, 4.0), (-0.1, 179.9)],
         "surface_position_with_ref": [(52.0, 4.0)]}
DF_GUARD = {
    "surv.fs": {4, 5}, "surv.dr": {4, 5}, "surv.um": {4, 5}, "surv.altitude": {4}, "surv.identity": {5},
    "allcall.icao": {11}, "allcall.interrogator": {11}, "allcall.capability": {11},
    "common.altcode": {0, 4, 16, 20}, "common.idcode": {5, 21},
}


def table():
    """list of (name, callable, extra-arg tuples, kind, guard)."""
    t = []
    for name in pms.adsb.__all__:
        f = getattr(pms.adsb, name)
        if name in ("position", "airborne_position", "surface_position"):
            continue        # pair functions: separate enumeration
        if name in ADSB_GUARD:
            t.append(("adsb." + name, f, EXTRA.get(name, [()]), "tc", ADSB_GUARD[name]))
        else:
            t.append(("adsb." + name, f, EXTRA.get(name, [()]), "free", None))
    for name in pms.commb.__all__:
        t.append(("commb." + name, getattr(pms.commb, name), [()], "free", None))
    for name in ("is53", "hdg53", "ias53", "mach53", "tas53", "vr53"):
        t.append(("bds53." + name, getattr(bds53, name), [()], "free", None))
    for name in ("fs", "dr", "um", "altitude", "identity"):
        t.append(("surv." + name, getattr(pms.surv, name), [()], "df", DF_GUARD["surv." + name]))
    for name in ("icao", "interrogator", "capability"):
        t.append(("allcall." + name, getattr(pms.allcall, name), [()], "df", DF_GUARD["allcall." + name]))
    for name in ("altcode", "idcode"):
        t.append(("common." + name, getattr(pms.common, name), [()], "df", DF_GUARD["common." + name]))
    for name in ("df", "crc", "icao", "typecode", "data", "allzeros", "fs", "dr", "um", "hex2bin", "hex2int"):
        if hasattr(pms.common, name):
            t.append(("common." + name, getattr(pms.common, name), [()], "free", None))
    t.append(("bds.infer", pms.bds.infer, [(False,), (True,)], "free", None))
    t.append(("bds.is50or60", pms.bds.is50or60, [(250, 90, 30000)], "free", None))
    t.append(("tell", _tell, [()], "free", None))
    return t


def _tell(msg):
    with contextlib.redirect_stdout(io.StringIO()):
        r = pms.tell(msg)
    if r is not None:
        raise AssertionError("tell returned a value")
    return None


TABLE = None


def frame(n, df, tc, st, pay, hdr):
    if n == 112:
        me = (tc << 51) | (st << 48) | (pay & ((1 << 48) - 1))
        v = (((df << 27) | (hdr & 0x7FFFFFF)) << 80) | (me << 24) | ((pay >> 8) & 0xFFFFFF)
    else:
        v = (((df << 27) | (hdr & 0x7FFFFFF)) << 24) | (tc << 19) | (st << 16) | (pay & 0xFFFF)
    return F.hexn(v, n)


def in_guard(kind, guard, n, df, tc, st):
    dfe = min(df, 24)
    if kind == "df":
        return dfe in guard
    tcs, sts = guard
    if dfe not in (17, 18) or n != 112:
        return False
    if tc not in tcs:
        return False
    if sts is not None and (st >> 1) not in sts:      # TC29 subtype is ME bits 6-7
        return False
    return True


def judge(name, extra, msg):
    global TABLE
    if TABLE is None:
        TABLE = {t[0]: t for t in table()}
    _, f, _, kind, guard = TABLE[name]
    r = call(f, msg, *extra)
    if r[0] == "exc" and r[1] != "RuntimeError":
        n = len(msg) * 4
        return "%s:%s:%s" % (name, r[1], "short_frame" if n == 56 else "long_frame")
    if kind == "free":
        return None
    n = len(msg) * 4
    v = int(msg, 16)
    df = v >> (n - 5)
    tc = (v >> (n - 37)) & 31
    st = (v >> (n - 40)) & 7
    if not in_guard(kind, guard, n, df, tc, st) and r[0] == "ok":
        if n == 56 and kind == "tc":
            why = "short_frame"
        elif kind == "tc" and guard[1] is not None and tc in guard[0] and min(df, 24) in (17, 18):
            why = "other_TC29_subtype"
        else:
            why = "other_format"
        return "%s:returns_value_outside_documented_guard:%s" % (name, why)
    return None


SKIP_STATELESS = ("tell", "common.hex2bin", "common.data")


def spelling(msg, idx):
    letters = [i for i, c in enumerate(msg) if c in "ABCDEF"]
    m = list(msg)
    for b, pos in enumerate(letters):
        if (idx >> b) & 1:
            m[pos] = m[pos].lower()
    return "".join(m)


def stateless(msg):
    """Each decoder is first called in isolation on its own letter-case spelling of the frame (state keyed on the string
    cannot be shared), then all decoders run on one spelling in table order and again in reverse order: every answer
    must equal the isolated one (hidden caches, mutated shared tables, order dependence)."""
    global TABLE
    if TABLE is None:
        TABLE = {t[0]: t for t in table()}
    calls = [(name, extra) for name, f, extras, kind, guard in table() for extra in extras if name not in SKIP_STATELESS]
    nlet = sum(c in "ABCDEF" for c in msg.upper())
    if (1 << nlet) <= len(calls) + 1:
        return []
    up = msg.upper()
    iso = {}
    for i, (name, extra) in enumerate(calls):
        iso[(name, extra)] = repr(call(TABLE[name][1], spelling(up, i + 1), *extra)).upper()
    out = []
    from engine.util import scribble
    for order in (calls, list(reversed(calls))):
        for name, extra in order:
            raw = call(TABLE[name][1], up, *extra)
            r = repr(raw).upper()
            if raw[0] == "ok":
                scribble(raw[1])            # a caller may modify what it was given
            if r != iso[(name, extra)]:
                out.append(("%s:result_depends_on_earlier_calls" % name, {"kind": "again", "name": name, "extra": list(extra), "msg": msg}))
    seen = set()
    return [x for x in out if not (x[0] in seen or seen.add(x[0]))]


def w_frames(arg):
    _n, dfs, pays, multiply = arg
    acc = Acc()
    tab = table()
    k = 0
    for df in dfs:
        for tc in range(32):
            for st in range(8):
                k += 1
                plist = pays if multiply else [pays[k % len(pays)]]
                # a long and a short frame with the same leading bytes are decoded back to back in one process, in
                # alternating order (aliasing inputs: anything keyed on a prefix of the frame must not leak between them)
                for pay, n in [(p_, n_) for p_ in plist for n_ in ((112, 56) if k % 2 else (56, 112))]:
                    msg = frame(n, df, tc, st, pay, [0, 0x7FFFFFF, 0x2AAAAAA, 0x1838][k % 4])
                    for name, f, extras, kind, guard in tab:
                        for extra in extras:
                            acc.n += 1
                            s = judge(name, extra, msg)
                            if s:
                                acc.bad(s, {"kind": "call", "name": name, "extra": list(extra), "msg": msg})
                    if k % 4 == 0:
                        for sig, case in stateless(msg):
                            acc.bad(sig, case)
                        acc.n += 3 * len(tab)
                acc.out.add((112, df, tc, st))
                acc.out.add((56, df, tc, st))
    return acc.res()


def related_frames():
    """frames one aircraft sends in a row: position reports either side of an NL boundary (the even/odd pair across it has
    no global solution), one on the surface, velocity, identification, status, and two Comm-B replies with its address."""
    aa = 0x4840D6

    def air(lat, oe, tc=11):
        e = C.encode(Fr(lat), Fr(13, 2), oe, False)
        return F.es(C.me_airborne(tc, 0xC38, oe, e["yz"], e["xz"]), aa, 5, 17)
    b = C.TRANS[38]
    e_s = C.encode(Fr(5066, 100), Fr(13, 2), 0, True)
    fr = [air(b - 0.012, 0), air(b + 0.012, 1), air(b + 0.02, 0), air(b - 0.02, 1), air(b + 0.03, 1, 20),
          F.es(C.me_surface(7, 12, 1, 40, 0, e_s["yz"], e_s["xz"]), aa, 5, 17),
          F.es(F.me(19, [(6, 3, 1), (15, 10, 121), (26, 10, 101), (38, 9, 5)]), aa, 5, 17),
          F.es(F.me(4, [(6, 3, 3)]) | 0x04D2C31CB1C3, aa, 5, 17),
          F.es(F.me(31, [(41, 3, 2)]), aa, 5, 17),
          F.es(F.me(28, [(6, 3, 1), (9, 3, 1), (12, 13, 0x0AAA)]), aa, 5, 17),          # emergency / priority status: general emergency
          F.es(F.me(29, [(6, 2, 1), (10, 11, 1001), (21, 9, 300), (30, 1, 1), (32, 8, 40), (47, 1, 1)]), aa, 5, 18),   # target state and status
          F.long_ap(20, 0x0001838, BR.valid("BDS50")[40], aa), F.long_ap(21, 0x0000AAA, BR.valid("BDS60")[40], aa)]
    return fr


def w_related(part):
    """every callable over every sequence of <= 3 frames (with repetition) of one aircraft: a decoder (or the
    pretty-printer) that remembers something about the transponder between calls must still answer every frame as it
    answers it in isolation, and must not let anything but RuntimeError escape."""
    import itertools
    global TABLE
    if TABLE is None:
        TABLE = {t[0]: t for t in table()}
    acc = Acc()
    frames = related_frames()
    ngood = len(frames)
    # garbled feed lines between the good ones: whatever a decoder does with them (any exception is fine), the good frames
    # decoded afterwards must be answered as before - one bad line must not poison the process
    g = frames[0]
    frames = frames + [g[:12] + "G" + g[13:], g[:20] + "zz" + g[22:], g[:27], g + "0", "", g[:10] + " " + g[11:], g[:8] + "+" + g[9:], "x" * 28]
    names = [(name, extra) for name, f, extras, kind, guard in table() for extra in extras[:1]]
    for name, extra in names[part::8]:
        f = TABLE[name][1]
        iso = {}
        for L in (1, 2, 3):
            for seq in itertools.product(range(len(frames)), repeat=L):
                if L == 3 and sum(i >= ngood for i in seq) != 1:
                    continue            # triples: exactly one garbled line among good frames (pairs / singles: everything)
                for k, i in enumerate(seq):
                    if i >= ngood:
                        call(f, frames[i], *extra)          # outcome not judged
                        continue
                    acc.n += 1
                    if name == "tell":
                        buf = io.StringIO()
                        with contextlib.redirect_stdout(buf):
                            r = call(pms.tell, frames[i])
                        r = (r[0], buf.getvalue() if r[0] == "ok" else r[1])
                    else:
                        r = call(f, frames[i], *extra)
                    rr = repr(r)
                    if r[0] == "exc" and r[1] != "RuntimeError":
                        acc.bad("%s:%s:after_other_frames_of_the_same_aircraft" % (name, r[1]),
                                {"kind": "related", "name": name, "extra": list(extra), "sequence": list(seq[:k + 1])})
                        break
                    if i not in iso:
                        iso[i] = rr
                    elif iso[i] != rr:
                        acc.bad("%s:answer_depends_on_the_frames_decoded_before" % name,
                                {"kind": "related", "name": name, "extra": list(extra), "sequence": list(seq[:k + 1])})
                        break
                    if r[0] == "ok" and name != "tell":
                        from engine.util import scribble
                        scribble(r[1])
        acc.out.add(("related", name))
    return acc.res()


def corner_frames(tc):
    """joint corner values: a frame type's fields pairwise at their corner values (0, 1, top bit only, all ones), the other
    fields at a default - the messages on which a computed quantity degenerates (speed 0, altitude 0, angle 0 ...)."""
    layouts = {
        19: [(6, 3), (9, 1), (10, 1), (11, 3), (14, 1), (15, 10), (25, 1), (26, 10), (36, 1), (37, 1), (38, 9), (47, 2), (49, 1), (50, 7)],
        29: [(6, 2), (8, 1), (9, 1), (10, 11), (21, 9), (30, 1), (31, 1), (32, 8), (40, 4), (44, 1), (45, 2), (47, 1), (48, 1), (49, 1), (50, 1), (51, 1), (52, 1), (53, 1), (54, 3)],
        31: [(6, 3), (9, 16), (25, 16), (41, 3), (44, 1), (45, 4), (49, 2), (51, 2), (53, 1), (54, 1), (55, 1), (56, 1)],
        28: [(6, 3), (9, 3), (12, 13), (25, 32)],
        5: [(6, 7), (13, 1), (14, 7), (21, 1), (22, 1), (23, 17), (40, 17)],
        11: [(6, 2), (8, 1), (9, 12), (21, 1), (22, 1), (23, 17), (40, 17)],
        4: [(6, 3), (9, 6), (15, 6), (21, 6), (27, 6), (33, 6), (39, 6), (45, 6), (51, 6)],
    }[tc]
    dflt = {19: {6: 1, 15: 100, 26: 200, 38: 17, 50: 5}, 29: {6: 1, 10: 1001, 21: 300, 30: 1, 32: 40, 47: 1}, 31: {41: 2}, 28: {6: 1, 12: 0x0AAA},
            5: {6: 20, 13: 1, 14: 30, 23: 4000, 40: 9000}, 11: {9: 0xC38, 23: 4000, 40: 9000}, 4: {9: 11, 15: 12, 21: 13}}[tc]

    def cor(w):
        return sorted({0, 1, 1 << (w - 1), (1 << w) - 1})
    out = []
    for i in range(len(layouts)):
        for j in range(i + 1, len(layouts)):
            (s1, w1), (s2, w2) = layouts[i], layouts[j]
            for v1 in cor(w1):
                for v2 in cor(w2):
                    f = {s_: dflt.get(s_, 0) for s_, _ in layouts}
                    f[s1], f[s2] = v1, v2
                    out.append(F.es(F.me(tc, [(s_, w_, f[s_]) for s_, w_ in layouts]), 0x4840D6, 5, 17 + (i + j) % 2))
    return list(dict.fromkeys(out))


def w_corners(arg):
    tc, part = arg
    acc = Acc()
    tab = table()
    for k, msg in enumerate(corner_frames(tc)[part::4]):
        if k % 3 == 1:
            msg = msg.lower()
        for name, f, extras, kind, guard in tab:
            for extra in extras[:1]:
                acc.n += 1
                s = judge(name, extra, msg)
                if s:
                    acc.bad(s + ":joint_corner_values", {"kind": "call", "name": name, "extra": list(extra), "msg": msg})
        acc.out.add(("corner", tc, msg))
    return acc.res()


def w_addr_indep(part):
    """no decoder other than the address decoders may depend on WHO sent a frame: the related frames of one aircraft are
    rebuilt for every address of engine.util.address_alphabet (corners, source literals, their neighbours, midpoints of
    the ranges the source delimits - e.g. the interior of unallocated address blocks) and every callable must answer as it
    does for the base address."""
    from engine.util import address_alphabet
    global TABLE
    if TABLE is None:
        TABLE = {t[0]: t for t in table()}
    acc = Acc()
    base = related_frames()
    # not judged: the address decoders themselves, functions that return raw header / frame bits whatever the format
    # (in DF17/18 the bits common.fs/dr/um slice ARE address bits), the checksum, and the pretty-printer (prints the address)
    skip = ("tell", "adsb.icao", "common.icao", "allcall.icao", "common.crc", "common.hex2bin", "common.hex2int", "allcall.interrogator",
            "common.fs", "common.dr", "common.um")
    names = [(name, extra) for name, f, extras, kind, guard in table() for extra in extras[:1] if name not in skip]
    b0 = 0x4840D6
    want = {}
    for ai, addr in enumerate(address_alphabet()[part::4]):
        for fi, m in enumerate(base):
            v = int(m, 16)
            if (v >> 107) in (17, 18):
                data = ((v >> 24) & ~(0xFFFFFF << 56)) | (addr << 56)
                m2 = F.hexn(R.downlink(data, 112, 0), 112)
            else:
                m2 = F.hexn((v >> 24 << 24) | ((v & 0xFFFFFF) ^ b0 ^ addr), 112)
            for name, extra in names:
                r = repr(call(TABLE[name][1], m2, *extra))
                acc.n += 1
                key = (fi, name)
                if key not in want:
                    want[key] = repr(call(TABLE[name][1], m, *extra))
                if r != want[key]:
                    acc.bad("%s:answer_depends_on_the_address_of_the_sender" % name, {"kind": "addr_indep", "name": name, "extra": list(extra), "msg": m2})
        acc.out.add(("addr_indep", addr))
    return acc.res()


def diverse_frames():
    """frames with different field values for every format a decoder may be restricted to (one aircraft)."""
    aa = 0x4840D6
    # two frames with different field values for every format a decoder may be restricted to
    return related_frames() + [
        F.short_ap(4, (1 << 24) | (5 << 19) | (6 << 15) | (1 << 13) | 0x1838, aa), F.short_ap(4, (2 << 24) | (17 << 19) | (9 << 15) | (2 << 13) | 0x0C10, aa),
        F.short_ap(5, (3 << 24) | (4 << 19) | (3 << 15) | (1 << 13) | 0x0AAA, aa), F.short_ap(5, (0 << 24) | (21 << 19) | (12 << 15) | (3 << 13) | 0x1555, aa),
        F.df11(aa, 5, 0), F.df11(aa, 2, 37), F.short_ap(0, 0x0001838, aa), F.short_ap(0, 0x0600C10, aa),
        F.long_ap(16, 0x0001838, 0x12345678, aa), F.long_ap(16, 0x0400C10, 0x0FEDCBA9876543, aa),
        F.long_ap(21, (3 << 24) | 0x0AAA, BR.valid("BDS40")[30], aa), F.long_ap(20, (1 << 24) | 0x0C10, BR.valid("BDS20")[0], aa),
        F.long_ap(20, 0x0001838, BR.valid("BDS10")[0], aa), F.long_ap(21, 0x0555, BR.valid("BDS17")[1], aa),
        F.long_ap(20, 0x0001838, BR.valid("BDS44")[50], aa), F.long_ap(20, 0x0001838, BR.valid("BDS45")[20], aa)]


def _in_child(fn):
    """run fn() in a forked child that starts from this process' (pristine) state; returns its picklable result."""
    import os
    import pickle
    r, w = os.pipe()
    pid = os.fork()
    if pid == 0:
        try:
            os.close(r)
            try:
                out = ("ok", fn())
            except BaseException as e:  # noqa: BLE001
                out = ("exc", repr(e))
            with os.fdopen(w, "wb") as fh:
                pickle.dump(out, fh)
        finally:
            os._exit(0)
    os.close(w)
    with os.fdopen(r, "rb") as fh:
        data = fh.read()
    os.waitpid(pid, 0)
    out = pickle.loads(data)
    if out[0] != "ok":
        raise RuntimeError("child failed: " + out[1])
    return out[1]


def w_hist2(part):
    """every history of two DIFFERENT callables from a pristine process: callable g is run on every frame in a fresh
    forked copy of the pristine interpreter, then every callable f on every frame; each answer of f must equal the answer
    f gives in a pristine interpreter in which only f itself ever ran (shared tables mutated by another function,
    lazily filled caches keyed on something other than the frame)."""
    global TABLE
    if TABLE is None:
        TABLE = {t[0]: t for t in table()}
    acc = Acc()
    frames = diverse_frames()
    names = [(name, extra) for name, f, extras, kind, guard in table() for extra in extras if name != "tell"]
    pairs = [("adsb.position", ()), ("adsb.airborne_position", ()), ("adsb.surface_position", ())]

    def run_all(who):
        out = {}
        for name, extra in who:
            if name in ("adsb.position", "adsb.airborne_position", "adsb.surface_position"):
                f = getattr(pms.adsb, name.split(".")[1])
                for i in range(0, len(frames) - 1):
                    out[(name, extra, i)] = repr(call(f, frames[i], frames[i + 1], 10, 11, *([52.0, 4.0] if "surface" in name or i % 2 else [])))
                continue
            f = TABLE[name][1]
            for i, m in enumerate(frames):
                out[(name, extra, i)] = repr(call(f, m, *extra))
        return out

    def first(g):
        name, extra = g
        if name in ("adsb.position", "adsb.airborne_position", "adsb.surface_position"):
            f = getattr(pms.adsb, name.split(".")[1])
            for i in range(0, len(frames) - 1):
                call(f, frames[i], frames[i + 1], 10, 11, *([52.0, 4.0] if "surface" in name or i % 2 else []))
        else:
            f = TABLE[name][1]
            for m in frames:
                call(f, m, *extra)

    names = names + pairs
    base = {}
    for nm in names:
        base.update(_in_child(lambda nm=nm: run_all([nm])))
    if isinstance(part, tuple):     # replay of one (first, second) pair
        firsts = [g for g in names if [g[0], list(g[1])] == part[0]]
        names = [nm for nm in names if nm[0] == part[1]]
    else:
        firsts = names[part::16]
    for g in firsts:
        def after_g(g=g):
            first(g)
            got_ = {}
            for nm in names:        # one grandchild per second callable: its history is exactly (g, f)
                got_.update(_in_child(lambda nm=nm: run_all([nm])))
            return got_
        got = _in_child(after_g)
        acc.n += len(got)
        for key, v in got.items():
            if v != base[key]:
                acc.bad("%s:answer_depends_on_which_other_decoder_ran_before" % key[0],
                        {"kind": "hist2", "first": [g[0], list(g[1])], "name": key[0], "extra": list(key[1]), "msg": frames[key[2]]})
        acc.out.add(("hist2", g[0], g[1]))
    acc.cov["two_call_histories_from_pristine"] = len(firsts) * len(names)
    return acc.res()


def w_interleave(part):
    """re-entrancy under a preemption bound of 1 (engine.interleave): for every callable, a call on one frame is suspended
    before each of its source lines in turn while a complete call on ANOTHER frame of the same aircraft runs (the same
    decoder, and the shared low-level helpers icao / crc / typecode), then resumed; both calls must give the answers they
    give alone.  Every schedule is executed deterministically; scheduling points are the line events inside the package."""
    from engine import interleave
    global TABLE
    if TABLE is None:
        TABLE = {t[0]: t for t in table()}
    acc = Acc()
    acc.cov["schedules"] = 0
    frames = diverse_frames()
    names = [(name, extra) for name, f, extras, kind, guard in table() for extra in extras[:1] if name != "tell"]
    src = loader.SRC
    for name, extra in names[part::8]:
        f = TABLE[name][1]
        iso = [repr(call(f, m, *extra)) for m in frames]
        ok = [i for i, r in enumerate(iso) if r.startswith("('ok'")]
        pairs = []
        for i in ok:
            for j in ok:
                if i != j and iso[i] != iso[j]:
                    pairs.append((i, j))
        pairs = pairs[:1] + pairs[len(pairs) // 2:len(pairs) // 2 + 1] if pairs else ([(ok[0], ok[-1])] if len(ok) > 1 else [])
        for i, j in pairs:
            others = [(f, (frames[j],) + tuple(extra), iso[j]), (pms.icao, (frames[j],), None), (pms.common.crc, (frames[j],), None),
                      (pms.common.typecode, (frames[j],), None)]
            for fb, args_b, iso_b in others:
                if iso_b is None:
                    iso_b = repr(call(fb, *args_b))
                res = interleave.explore(f, (frames[i],) + tuple(extra), fb, args_b, src)
                acc.cov["schedules"] += len(res["schedules"])
                acc.c["infeasible_schedules"] += res["infeasible"]
                for k, ra, rb in res["schedules"]:
                    acc.n += 1
                    if repr(ra) != iso[i] or repr(rb) != iso_b:
                        acc.bad("%s:answer_changes_when_another_call_runs_in_between" % name,
                                {"kind": "interleave", "name": name, "extra": list(extra), "a": frames[i], "b": [getattr(fb, "__name__", "?"), list(args_b)], "preempt_before_line_event": k})
                        break
        acc.out.add(("interleave", name))
    if part == 0:
        # the pair decoders: a global decode suspended at every line while the decode of ANOTHER aircraft's pair (and of a
        # pair on the surface with its receiver location) runs to completion
        def air(lat, lon, oe, aa_):
            e = C.encode(Fr(lat).limit_denominator(10 ** 6), Fr(lon).limit_denominator(10 ** 6), oe, False)
            return F.es(C.me_airborne(11, 0xC38, oe, e["yz"], e["xz"]), aa_, 5, 17)

        def sfc(lat, lon, oe, aa_):
            e = C.encode(Fr(lat).limit_denominator(10 ** 6), Fr(lon).limit_denominator(10 ** 6), oe, True)
            return F.es(C.me_surface(7, 12, 1, 40, oe, e["yz"], e["xz"]), aa_, 5, 17)
        A1 = (air(52.25, 3.9, 0, 0x4840D6), air(52.26, 3.91, 1, 0x4840D6), 10, 11)
        A2 = (air(-33.4, 151.2, 0, 0x7C1234), air(-33.41, 151.19, 1, 0x7C1234), 21, 20)
        S1 = (sfc(52.31, 4.76, 0, 0x4840D6), sfc(52.311, 4.761, 1, 0x4840D6), 10, 11, 52.3, 4.7)
        S2 = (sfc(-33.94, 151.17, 0, 0x7C1234), sfc(-33.941, 151.171, 1, 0x7C1234), 21, 20, -33.9, 151.2)
        R1 = (A1[1], 52.0, 4.0)
        R2 = (A2[0], -33.0, 151.0)
        calls = [("adsb.position", pms.adsb.position, A1), ("adsb.position", pms.adsb.position, A2), ("adsb.position", pms.adsb.position, S1),
                 ("adsb.position", pms.adsb.position, S2), ("adsb.airborne_position", pms.adsb.airborne_position, A1),
                 ("adsb.airborne_position", pms.adsb.airborne_position, A2), ("adsb.surface_position", pms.adsb.surface_position, S1),
                 ("adsb.surface_position", pms.adsb.surface_position, S2), ("adsb.position_with_ref", pms.adsb.position_with_ref, R1),
                 ("adsb.position_with_ref", pms.adsb.position_with_ref, R2)]
        isos = [repr(call(f, *a)) for _, f, a in calls]
        for i, (na, fa, aa_) in enumerate(calls):
            for j, (nb, fb, ab) in enumerate(calls):
                if i == j or aa_[0][2:8] == ab[0][2:8] and na == nb:
                    continue
                res = interleave.explore(fa, aa_, fb, ab, src)
                acc.cov["schedules"] += len(res["schedules"])
                acc.c["infeasible_schedules"] += res["infeasible"]
                for k, ra, rb in res["schedules"]:
                    acc.n += 1
                    if repr(ra) != isos[i] or repr(rb) != isos[j]:
                        acc.bad("%s:answer_changes_when_another_call_runs_in_between" % na,
                                {"kind": "interleave", "name": na, "pair": True, "a": list(aa_), "b": [nb, list(ab)], "preempt_before_line_event": k})
                        break
        acc.out.add(("interleave", "pair decoders"))
    return acc.res()


def w_periodic(part):
    """frames made of one octet repeated, or two octets repeated (every first octet, i.e. every DF / CA): totality and
    guards on the most regular bit patterns there are."""
    acc = Acc()
    tab = table()
    k = 0
    for b0 in range(part, 256, 4):
        for b1 in (b0, 0x00, 0xFF, 0x1A, 0x55):
            for n in (56, 112):
                k += 1
                msg = (("%02X%02X" % (b0, b1)) * 7)[:n // 4]
                if k % 3 == 1:
                    msg = msg.lower()
                for name, f, extras, kind, guard in tab:
                    for extra in extras[:1]:
                        acc.n += 1
                        s = judge(name, extra, msg)
                        if s:
                            acc.bad(s + ":periodic_frame", {"kind": "call", "name": name, "extra": list(extra), "msg": msg})
        acc.out.add(("periodic", b0))
    return acc.res()


def w_forms(part):
    """argument forms: every callable must answer a frame the same way when the arguments are passed by the names its
    own signature advertises, and when the frame is a numpy.str_ (what iterating a numpy array of hex strings yields)
    instead of a plain str."""
    from engine.util import kw_call, np_str
    global TABLE
    if TABLE is None:
        TABLE = {t[0]: t for t in table()}
    acc = Acc()
    frames = related_frames() + [F.short_ap(4, 0x0001838, 0x4840D6), F.short_ap(5, 0x7FFFFFF, 0x4840D6), F.df11(0x4840D6, 5, 0),
                                 F.long_ap(16, 0x0001838, 0x12345678, 0x4840D6), F.es(F.me(29, [(6, 2, 1)]), 0x4840D6, 5, 18), "f" * 28, "0" * 14]
    names = [(name, extra) for name, f, extras, kind, guard in table() for extra in extras[:1] if name != "tell"]
    for name, extra in names[part::4]:
        f = TABLE[name][1]
        for m in frames:
            base = call(f, m, *extra)
            acc.n += 2
            k = kw_call(f, m, *extra)
            if k is not None and repr(k) != repr(base):
                acc.bad("%s:keyword_call_differs_from_positional_call" % name, {"kind": "forms", "name": name, "extra": list(extra), "msg": m, "form": "keyword"})
            r = call(f, np_str(m), *extra)
            if repr(r) != repr(base):
                acc.bad("%s:numpy_str_frame_differs_from_str_frame" % name, {"kind": "forms", "name": name, "extra": list(extra), "msg": m, "form": "numpy.str_"})
        acc.out.add(("forms", name))
    return acc.res()


def w_parity(df):
    """the parity / PI field as an input in its own right: for one downlink format, both frame lengths and two
    payloads, the last 24 bits are set so that the checksum of the frame (= overlaid address or interrogator code) takes
    every value 0..255 and every single higher bit - for DF11 that is every CL/IC code, legal (0..79) or not."""
    from spec import crc as R
    acc = Acc()
    tab = table()
    rems = list(range(256)) + [1 << b for b in range(8, 24)] + [0xFFFFFF, 0xFFFF80]
    for n in (56, 112):
        for fill in (0, 1):
            body = (df << (n - 29)) | (((1 << (n - 29)) - 1) if fill else 0x0581 << (n - 29 - 16))
            if df in (17, 18) and n == 112:
                body = (df << 83) | (5 << 80) | (0x4840D6 << 56) | ((11 << 51) if not fill else ((31 << 51) | ((1 << 51) - 1)))
            for k, rem in enumerate(rems):
                msg = F.hexn(R.downlink(body, n, rem), n)
                if k % 3 == 1:
                    msg = msg.lower()
                for name, f, extras, kind, guard in tab:
                    for extra in extras:
                        acc.n += 1
                        s = judge(name, extra, msg)
                        if s:
                            acc.bad(s + ":parity_sweep", {"kind": "call", "name": name, "extra": list(extra), "msg": msg})
            acc.out.add(("parity", df, n, fill))
    return acc.res()


def w_lead(arg):
    """all 2^11 values of ME bits 6-16 (the leading fields after the type code: subtype, movement, emergency state,
    intent flags ...) for one DF/TC, tails zeros and ones, through every decoder whose guard accepts the TC + tell/infer."""
    df, tc = arg
    acc = Acc()
    tab = [t for t in table() if (t[3] == "tc" and tc in t[4][0]) or t[0] in ("tell", "bds.infer", "adsb.oe_flag")]
    for lead in range(2048):
        for tail in (0, (1 << 40) - 1):
            me = (tc << 51) | (lead << 40) | tail
            msg = F.es(me, 0x406B90, 5, df, 0)
            for name, f, extras, kind, guard in tab:
                for extra in extras[:2]:
                    acc.n += 1
                    s = judge(name, extra, msg)
                    if s:
                        acc.bad(s, {"kind": "call", "name": name, "extra": list(extra), "msg": msg})
        acc.out.add(("lead", df, tc, lead))
    return acc.res()


# ------------------------------------------------------------------ dispatchers
def pos_msg(tc, oe, surface):
    e = C.encode(Fr(5231, 100), Fr(437, 100), oe, surface)
    if surface:
        me = C.me_surface(tc, 20, 1, 33, oe, e["yz"], e["xz"])
    else:
        me = C.me_airborne(tc, 0xC38, oe, e["yz"], e["xz"])
    me = (me & ((1 << 51) - 1)) | (tc << 51)
    return F.es(me, 0x406B90, 5, 17)


def judge_dispatch(kind, p):
    if kind == "position":
        tc0, tc1, ref = p
        m0 = pos_msg(tc0, 0, tc0 in TC_SURF)
        m1 = pos_msg(tc1, 1, tc1 in TC_SURF)
        args = (m0, m1, 10, 11) + ((52.3, 4.4) if ref else ())
        r = call(pms.adsb.position, *args)
        if r[0] == "exc" and r[1] != "RuntimeError":
            return "position:%s" % r[1]
        if tc0 in TC_SURF and tc1 in TC_SURF:
            if not ref:
                return None if r == ("exc", "RuntimeError") else "position:surface_pair_without_reference_not_refused"
            want = call(pms.adsb.surface_position, m0, m1, 10, 11, 52.3, 4.4)
        elif (tc0 in range(9, 19) and tc1 in range(9, 19)) or (tc0 in (20, 21, 22) and tc1 in (20, 21, 22)):
            want = call(pms.adsb.airborne_position, m0, m1, 10, 11)
        else:
            return None if r == ("exc", "RuntimeError") else "position:inconsistent_type_codes_not_refused"
        return None if r == want else "position:differs_from_routed_decoder"
    tc, = p
    msg = pos_msg(tc, 1, tc in TC_SURF) if kind != "velocity" else F.es(F.me(tc, [(6, 3, 1), (15, 10, 100), (26, 10, 200), (38, 9, 20)]) | (0x50 << 36 if tc in TC_SURF else 0))
    if kind == "position_with_ref":
        r = call(pms.adsb.position_with_ref, msg, 52.3, 4.4)
        if tc in TC_SURF:
            want = call(pms.adsb.surface_position_with_ref, msg, 52.3, 4.4)
        elif tc in TC_POS_AIR:
            want = call(pms.adsb.airborne_position_with_ref, msg, 52.3, 4.4)
        else:
            want = ("exc", "RuntimeError")
    elif kind == "altitude":
        r = call(pms.adsb.altitude, msg)
        if tc in TC_SURF:
            want = ("ok", 0)
        elif tc in TC_POS_AIR:
            want = call(pms.adsb.altitude05, msg)
        else:
            want = ("exc", "RuntimeError")
    else:
        r = call(pms.adsb.velocity, msg, True)
        if tc in TC_SURF:
            want = call(pms.adsb.surface_velocity, msg, True)
        elif tc == 19:
            want = call(pms.adsb.airborne_velocity, msg, True)
        else:
            want = ("exc", "RuntimeError")
    return None if r == want else "%s:does_not_route_by_type_code" % kind


def w_dispatch(_):
    acc = Acc()
    for tc0, tc1 in itertools.product(range(32), repeat=2):
        for ref in (False, True):
            acc.n += 1
            s = judge_dispatch("position", (tc0, tc1, ref))
            if s:
                acc.bad(s, {"kind": "dispatch", "sub": "position", "p": [tc0, tc1, ref]})
    for kind in ("position_with_ref", "altitude", "velocity"):
        for tc in range(32):
            acc.n += 1
            s = judge_dispatch(kind, (tc,))
            if s:
                acc.bad(s, {"kind": "dispatch", "sub": kind, "p": [tc]})
            acc.out.add((kind, tc))
    return acc.res()


def w_registers(reg):
    """every in-envelope boundary payload of one Comm-B register (status bits on and off) in DF20 and DF21 carriers
    through tell(), infer and every commb decoder: the pretty-printer and the decoders see 'not available' fields."""
    from spec import bds_rules as BR
    acc = Acc()
    tab = [t for t in table() if t[0] in ("tell", "bds.infer", "bds.is50or60") or t[0].startswith(("commb.", "bds53."))]
    mbs = BR.valid(reg)
    if len(mbs) > 400:
        mbs = mbs[:: len(mbs) // 400 + 1]
    for i, mb in enumerate(mbs):
        for df in (20, 21):
            msg = F.long_ap(df, 0x0001838 if i % 2 else 0x7FFE0A4, mb, 0x406B90)
            if i % 3 == 1:
                msg = msg.lower()
            for name, f, extras, kind, guard in tab:
                for extra in extras:
                    acc.n += 1
                    s = judge(name, extra, msg)
                    if s:
                        acc.bad(s + ":register_payload", {"kind": "call", "name": name, "extra": list(extra), "msg": msg})
        acc.out.add(("reg", reg, mb))
    return acc.res()


def w_poles(_):
    """position decoders on frames whose decoded latitude is exactly a structural breakpoint (0, +-87, +-90 ...)."""
    acc = Acc()
    for latn, latd in ((87, 1), (-87, 1), (0, 1), (90, 1), (-90, 1), (869999, 10000), (6, 1), (-6, 1)):
        for lon in (Fr(0), Fr(1125, 100), Fr(-180)):
            for surface, tc in ((False, 11), (False, 22), (True, 7)):
                lat = Fr(latn, latd)
                e0, e1 = C.encode(lat, lon, 0, surface), C.encode(lat, lon, 1, surface)
                mk = (lambda e, i: F.es(C.me_surface(tc, 5, 1, 3, i, e["yz"], e["xz"]) if surface else C.me_airborne(tc, 0xC38, i, e["yz"], e["xz"]), 0x406B90, 5, 17))
                m0, m1 = mk(e0, 0), mk(e1, 1)
                ref = (float(lat) - (0.3 if lat > 0 else -0.3), float(lon))
                calls = [("position", (m0, m1, 2, 1) + (ref if surface else ())), ("position", (m0, m1, 1, 2) + (ref if surface else ())),
                         ("position_with_ref", (m0,) + ref), ("position_with_ref", (m1,) + ref)]
                calls += [("surface_position", (m0, m1, 2, 1) + ref)] if surface else [("airborne_position", (m1, m0, 1, 2))]
                for fn, args in calls:
                    acc.n += 1
                    r = call(getattr(pms.adsb, fn), *args)
                    bad = (r[0] == "exc" and r[1] != "RuntimeError") or (r[0] == "ok" and r[1] is not None and not (
                        isinstance(r[1], tuple) and len(r[1]) == 2 and all(isinstance(x, float) and x == x for x in r[1])))
                    if bad:
                        acc.bad("adsb.%s:%s:breakpoint_latitude" % (fn, r[1] if r[0] == "exc" else "malformed_result"),
                                {"kind": "pole", "fn": fn, "args": list(args)})
                acc.out.add(("pole", latn, latd, tc))
    return acc.res()


def w_partial(_):
    """position() / position_with_ref() with the optional receiver location given completely, partly (latitude only,
    longitude only) or not at all, for airborne pairs in one NL zone, airborne pairs straddling an NL boundary (no global
    solution), surface pairs and mixed pairs: a value, None or RuntimeError - nothing else."""
    acc = Acc()
    b = C.TRANS[38]
    aa = 0x4840D6

    def air(lat, oe):
        e = C.encode(Fr(lat).limit_denominator(10 ** 9), Fr(13, 2), oe, False)
        return F.es(C.me_airborne(11, 0xC38, oe, e["yz"], e["xz"]), aa, 5, 17)

    def sfc(lat, oe):
        e = C.encode(Fr(lat).limit_denominator(10 ** 9), Fr(13, 2), oe, True)
        return F.es(C.me_surface(7, 12, 1, 40, oe, e["yz"], e["xz"]), aa, 5, 17)
    pairs = {"same_zone": (air(b - 0.05, 0), air(b - 0.049, 1)), "across_NL_boundary": (air(b - 0.012, 0), air(b + 0.012, 1)),
             "surface": (sfc(50.66, 0), sfc(50.661, 1)), "mixed": (sfc(50.66, 0), air(50.661, 1)), "same_parity": (air(50.0, 0), air(50.01, 0))}
    refs = [(), (50.7,), (50.7, None), (None, 6.4), (50.7, 6.4), (None, None), (0, 0), (0.0, None)]
    for pname, (m0, m1) in pairs.items():
        for t0, t1 in ((1, 2), (2, 1), (5, 5)):
            for r_ in refs:
                for a0, a1 in ((m0, m1), (m1, m0)):
                    acc.n += 1
                    r = call(pms.adsb.position, a0, a1, t0, t1, *r_)
                    if r[0] == "exc" and r[1] != "RuntimeError":
                        acc.bad("adsb.position:%s:%s_pair:partial_reference" % (r[1], pname),
                                {"kind": "partial", "fn": "position", "args": [a0, a1, t0, t1] + list(r_)})
        acc.out.add(("partial", pname))
    for m in (pairs["same_zone"][0], pairs["surface"][0], pairs["surface"][1]):
        for r_ in ((50.7, 6.4), (0, 0), (50, 6), (-0.0, 6.4)):
            acc.n += 1
            r = call(pms.adsb.position_with_ref, m, *r_)
            if r[0] == "exc" and r[1] != "RuntimeError":
                acc.bad("adsb.position_with_ref:%s:partial_reference" % r[1], {"kind": "partial", "fn": "position_with_ref", "args": [m] + list(r_)})
    return acc.res()


def w_any(t):
    if t[0] == "w":
        return w_partial(None)
    if t[0] == "r":
        return w_registers(t[1])
    if t[0] == "p":
        return w_poles(None)
    if t[0] == "l":
        return w_lead(t[1])
    if t[0] == "c":
        return w_parity(t[1])
    if t[0] == "s":
        return w_related(t[1])
    if t[0] == "a":
        return w_forms(t[1])
    if t[0] == "k":
        return w_corners(t[1])
    if t[0] == "o":
        return w_periodic(t[1])
    if t[0] == "i":
        return w_addr_indep(t[1])
    if t[0] == "t":
        return w_interleave(t[1])
    if t[0] == "h":
        return w_hist2(t[1])
    return w_dispatch(None) if t[0] == "d" else w_frames(t[1])


def run(ctx):
    import random
    rng = random.Random(ctx.seed)
    pays = [0, (1 << 48) - 1, 0x555555555555, 0xAAAAAAAAAAAA, rng.getrandbits(48), rng.getrandbits(48),
            0x111111111111, 0x101010101010, 0x010101010101, 0x999999999999]     # hex digits all 0/1, all decimal (content sniffing)
    tasks = [("d", None), ("p", None), ("w", None)] + [("r", r) for r in ("BDS10", "BDS17", "BDS20", "BDS30", "BDS40", "BDS44", "BDS45", "BDS50", "BDS60")]
    for df in range(32):
        tasks.append(("f", (0, [df], pays, ctx.thorough)))
    tasks += [("l", (df, tc)) for df in ((17, 18) if ctx.thorough else (17,)) for tc in range(32)]
    tasks += [("s", part) for part in range(8)]
    tasks += [("a", part) for part in range(4)]
    tasks += [("o", part) for part in range(4)]
    tasks += [("i", part) for part in range(4)]
    tasks += [("t", part) for part in range(8)]
    tasks += [("h", part) for part in range(16)]
    tasks += [("k", (tc, part)) for tc in (19, 29, 31, 28, 5, 11, 4) for part in range(4)]
    tasks += [("c", df) for df in ((0, 4, 5, 11, 16, 17, 18, 20, 21, 24) if not ctx.thorough else range(32))]
    ctx.pmap(w_any, tasks)
    ctx.cov["functions"] = len(table())
    ctx.cov["exhaustive"] = True
    ctx.samples.append({"function": "adsb.nuc_p", "msg": frame(112, 17, 19, 1, 0, 0)})


def replay(case):
    global TABLE
    if case["kind"] == "pole":
        r = call(getattr(pms.adsb, case["fn"]), *case["args"])
        bad = (r[0] == "exc" and r[1] != "RuntimeError") or (r[0] == "ok" and r[1] is not None and not (
            isinstance(r[1], tuple) and len(r[1]) == 2 and all(isinstance(x, float) and x == x for x in r[1])))
        return [("adsb.%s:%s:breakpoint_latitude" % (case["fn"], r[1] if r[0] == "exc" else "malformed_result"), case)] if bad else []
    if case["kind"] == "again":
        return stateless(case["msg"])
    if case["kind"] == "hist2":
        return [(s_, c_) for s_, c_ in w_hist2((case["first"], case["name"]))["viols"]]
    if case["kind"] == "interleave":
        out = []
        for part in ([0] if case.get("pair") else range(8)):
            out += [(s_, c_) for s_, c_ in w_interleave(part)["viols"] if c_.get("name") == case["name"]]
        return out
    if case["kind"] == "addr_indep":
        out = []
        for part in range(4):
            out += [(s_, c_) for s_, c_ in w_addr_indep(part)["viols"] if c_.get("name") == case["name"]]
        return out
    if case["kind"] == "partial":
        r = call(getattr(pms.adsb, case["fn"]), *case["args"])
        return [(s_, case) for s_, _ in w_partial(None)["viols"]] if (r[0] == "exc" and r[1] != "RuntimeError") else []
    if case["kind"] == "forms":
        out = []
        for part in range(4):
            out += [(s_, c_) for s_, c_ in w_forms(part)["viols"] if c_.get("name") == case["name"] and c_.get("form") == case["form"]]
        return out
    if case["kind"] == "related":
        out = []
        for part in range(8):
            out += [(s_, c_) for s_, c_ in w_related(part)["viols"] if c_.get("name") == case["name"]]
        return out
    if case["kind"] == "call":
        s = judge(case["name"], tuple(case["extra"]), case["msg"])
        if s:
            return [(s, case), (s + ":register_payload", case), (s + ":parity_sweep", case), (s + ":joint_corner_values", case), (s + ":periodic_frame", case)]
    else:
        s = judge_dispatch(case["sub"], tuple(case["p"]))
    return [(s, case)] if s else []
