"""C01 - CRC-24 remainder, parity closure, error detection.

Part I  (implementation, exhaustive within bound): crc / crc_legacy on every frame of
         Hamming weight <= 3 (4 thorough), every byte value at every byte position,
         (thorough) every value pair of every two byte positions; encode=True closure.
Part II (model): syndromes S[i] = crc(e_i) are read off the implementation, must equal
         x^(n-1-i) mod G, and must be one LFSR step apart.  On that model: every error
         pattern of weight 1..5 and every 24-bit window value at every offset (= every
         burst of length <= 24), by stepping all 2^24 LFSR states.
Part III (conformance): errors applied to real valid frames through the real crc().
Part IV (statelessness): every sequence of <= 3 (4) calls over {crc, crc(encode), crc_legacy, crc_legacy(encode), icao}
         on the same frame string must return the reference value at every step.
"""
import itertools
import random

import numpy as np

from engine import loader
from engine.runner import Acc
from spec import crc as R

LEVEL = "model_checking"
RULE = ("frames enumerated by Hamming weight (all supports of size <= k), by byte value per position and by "
        "byte-value pairs per position pair; a case is non-trivial/distinct when the (length, remainder) it produced "
        "is new; model part: all 2^24 LFSR states stepped over every offset, all supports of weight <= 5")
ASSUMPTIONS = [
    "re-entrancy: a checksum call suspended at a source-line boundary while another runs to completion (one preemption, engine/interleave.py) must give its isolated answer",
    "frames of weight >= 5 reach the implementation only through byte(-pair) sweeps and seeded extras; for them the "
    "claim rests on GF(2) linearity of crc(), which is validated on all weight<=3(4) frames and byte pairs, not proved",
    "reference = bit-serial polynomial division modulo 0x1FFF409 (Annex 10 Vol IV 3.1.2.3.3)",
]

pms = loader.load("P")
from pyModeS import py_common as PC  # noqa: E402

LENS = (112, 56)


def _judge_frame(acc, fn, frame, n):
    h = R.hexf(frame, n)
    exp = R.remainder(frame, n)
    for name in fn:
        f = pms.crc if name == "crc" else PC.crc_legacy
        got = f(h)
        acc.n += 1
        if got != exp:
            acc.bad("%s:remainder:len%d" % (name, n), {"kind": "rem", "fn": name, "msg": h})
    acc.out.add((n, exp))


def w_weight(arg):
    """All frames of weight w whose first set bit is at position i0 (MSB-first index)."""
    n, w, i0, fns = arg
    acc = Acc()
    if w == 0:
        _judge_frame(acc, fns, 0, n)
        return acc.res()
    rest = range(i0 + 1, n)
    top = 1 << (n - 1 - i0)
    for comb in itertools.combinations(rest, w - 1):
        fr = top
        for j in comb:
            fr |= 1 << (n - 1 - j)
        _judge_frame(acc, fns, fr, n)
    if i0 == 0 and w <= 2:
        acc.samples.append({"frame": R.hexf(top | (1 if w == 2 else 0), n), "weight": w})
    return acc.res()


def w_bytes(arg):
    """byte sweeps: one position all 256 values, or a pair of positions all 65536."""
    n, p, q, fns = arg
    nb = n // 8
    acc = Acc()
    if q is None:
        for v in range(256):
            _judge_frame(acc, fns, v << (8 * (nb - 1 - p)), n)
    else:
        for v in range(256):
            a = v << (8 * (nb - 1 - p))
            for u in range(1, 256):
                _judge_frame(acc, fns, a | (u << (8 * (nb - 1 - q))), n)
    return acc.res()


def w_vanish(arg):
    """frames whose running remainder vanishes part-way through the division: a valid codeword of k + 3 bytes (any k
    data bytes H followed by their own parity) continued by an arbitrary tail.  Any shortcut a division routine takes on a
    zero window / zero remainder (skipping ahead, early exit) is taken on exactly these frames, at every byte position."""
    n, seed = arg
    nb = n // 8
    acc = Acc()
    rng = random.Random(seed * 77 + n)
    for k in range(1, nb - 2):
        heads = [1, (1 << (8 * k)) - 1, int("A5" * k, 16), int("8D" + "40" * (k - 1), 16) if k > 1 else 0x8D] + [rng.getrandbits(8 * k) | 1 for _ in range(6)]
        rest = nb - k - 3
        for H in heads:
            cw = (H << 24) | R.parity(H, 8 * k)
            tails = [0, (1 << (8 * rest)) - 1, 1, 0x5A, 1 << (8 * rest - 1) if rest else 0] + [rng.getrandbits(8 * rest) for _ in range(3)] if rest else [0]
            for t in tails:
                _judge_frame(acc, ("crc", "legacy"), (cw << (8 * rest)) | t, n)
                h = R.hexf((cw << (8 * rest)) | t, n)
                acc.n += 1
                if pms.crc(h, encode=True) != R.parity(((cw << (8 * rest)) | t) >> 24, n - 24):
                    acc.bad("crc:encode_depends_only_on_data:len%d" % n, {"kind": "enc", "fn": "crc", "msg": h})
    return acc.res()


def _data_corpus(n, seed):
    nd = n - 24
    out = [0, (1 << nd) - 1, int("55" * (nd // 8), 16), int("AA" * (nd // 8), 16)]
    out += [1 << i for i in range(nd)]
    out += [(1 << i) | (1 << j) for i in range(0, nd, 7) for j in range(i + 1, nd, 5)]
    rng = random.Random(seed * 1000 + n)
    out += [rng.getrandbits(nd) for _ in range(64)]
    return out


def w_encode(arg):
    n, datas = arg
    acc = Acc()
    pars = [0, 0xFFFFFF] + [1 << i for i in range(24)]
    for d in datas:
        exp = R.parity(d, n - 24)
        for name in ("crc", "crc_legacy"):
            f = pms.crc if name == "crc" else PC.crc_legacy
            for p in pars:
                h = R.hexf((d << 24) | p, n)
                got = f(h, encode=True)
                acc.n += 1
                if got != exp:
                    acc.bad("%s:encode_depends_only_on_data:len%d" % (name, n),
                            {"kind": "enc", "fn": name, "msg": h})
                    break
            h = R.hexf((d << 24) | f(R.hexf(d << 24, n), encode=True), n)
            acc.n += 1
            if f(h) != 0:
                acc.bad("%s:parity_closure:len%d" % (name, n), {"kind": "closure", "fn": name, "msg": h})
        acc.out.add((n, "enc", exp))
    return acc.res()


def w_conf(arg):
    """real crc on valid frame + error pattern (weights and short bursts)."""
    n, base, mode, i0, maxlen = arg
    acc = Acc()
    f = pms.crc
    if mode == "w3":
        for w in (1, 2, 3):
            for comb in itertools.combinations(range(i0 + 1, n), w - 1):
                e = 1 << (n - 1 - i0)
                for j in comb:
                    e |= 1 << (n - 1 - j)
                acc.n += 1
                if f(R.hexf(base ^ e, n)) == 0:
                    acc.bad("crc:undetected_error:weight%d" % w, {"kind": "err", "base": R.hexf(base, n), "err": R.hexf(e, n)})
    else:
        # bursts: pattern with first and last bit set, length L <= maxlen, starting at offset i0
        for L in range(1, maxlen + 1):
            if i0 + L > n:
                break
            inner = L - 2
            for mid in range(1 << max(inner, 0)):
                if L == 1:
                    pat = 1
                else:
                    pat = (1 << (L - 1)) | (mid << 1) | 1
                e = pat << (n - i0 - L)
                acc.n += 1
                if f(R.hexf(base ^ e, n)) == 0:
                    acc.bad("crc:undetected_error:burst", {"kind": "err", "base": R.hexf(base, n), "err": R.hexf(e, n)})
                if L <= 2:
                    break
    return acc.res()


def _step(s):
    s = s << 1
    return np.where(s & 0x1000000, s ^ R.G, s) & 0xFFFFFF


def w_model_weights(n):
    """Extract syndromes from the implementation; model-check weight<=5 detection on them."""
    acc = Acc()
    S = [pms.crc(R.hexf(1 << (n - 1 - i), n)) for i in range(n)]
    acc.n += n
    for i in range(n):
        if S[i] != R.remainder(1 << (n - 1 - i), n):
            acc.bad("crc:syndrome:len%d" % n, {"kind": "rem", "fn": "crc", "msg": R.hexf(1 << (n - 1 - i), n)})
    arr = np.array(S, dtype=np.int64)
    ok_step = np.array_equal(_step(arr[1:]), arr[:-1]) and all(S[n - 24 + k] == 1 << (23 - k) for k in range(24))
    acc.cov["lfsr_binding_len%d" % n] = bool(ok_step)
    if not ok_step:
        acc.bad("crc:lfsr_binding:len%d" % n, {"kind": "model", "n": n})
        return acc.res()
    S32 = arr.astype(np.uint32)
    cnt = n
    bad = None
    if (S32 == 0).any():
        bad = (1,)
    iu = np.triu_indices(n, 1)
    P = S32[iu[0]] ^ S32[iu[1]]
    cnt += P.size
    if (P == 0).any():
        bad = (2,)
    trip_by_k = []
    for k in range(n - 2):
        sub = S32[k + 1:]
        ju = np.triu_indices(sub.size, 1)
        trip_by_k.append(S32[k] ^ sub[ju[0]] ^ sub[ju[1]])
    T = np.concatenate(trip_by_k)
    off = np.cumsum([0] + [t.size for t in trip_by_k])
    cnt += T.size
    if (T == 0).any():
        bad = (3,)
    for i in range(n - 3):          # weight 4: i < (j<k<l)
        v = T[off[i + 1]:] ^ S32[i]
        cnt += v.size
        if not v.all():
            bad = (4, i)
    for i in range(n - 4):          # weight 5: (i<j) < (k<l<m)
        for j in range(i + 1, n - 3):
            v = T[off[j + 1]:] ^ (S32[i] ^ S32[j])
            cnt += v.size
            if not v.all():
                bad = (5, i, j)
    acc.cov["model_weight_le5_patterns_len%d" % n] = int(cnt)
    acc.cov["transitions"] = int(cnt)
    if bad:
        acc.bad("model:undetected_weight%d:len%d" % (bad[0], n), {"kind": "model", "n": n, "bad": list(bad)})
    return acc.res()


def w_model_bursts(_):
    """Every non-zero 24-bit window value shifted to every offset: all 2^24 LFSR states, 88 steps."""
    acc = Acc()
    st = np.arange(1 << 24, dtype=np.uint32)
    tmp = np.empty_like(st)
    GL = np.uint32(R.G & 0xFFFFFF)
    zero_hits = 0
    perm = None
    for k in range(112 - 24):
        np.right_shift(st, 23, out=tmp)
        tmp *= GL
        st <<= 1
        st &= 0xFFFFFF
        st ^= tmp
        zero_hits += st.size - int(np.count_nonzero(st)) - 1
        if k == 0:
            perm = bool(np.unique(st).size == 1 << 24)
            # bind the vectorised step to the scalar model step on a sample of states
            for s in (1, 0x800000, 0xFFFFFF, 0x7FF409, 0xABCDEF):
                exp = ((s << 1) ^ (R.G if s & 0x800000 else 0)) & 0xFFFFFF
                assert int(st[s]) == exp
    acc.cov["states"] = 1 << 24
    acc.cov["transitions"] = int((1 << 24) * (112 - 24))
    acc.cov["burst_windows_checked"] = int(((1 << 24) - 1) * (112 - 24 + 1))
    acc.cov["lfsr_step_is_permutation"] = perm
    if zero_hits or not perm:
        acc.bad("model:undetected_burst", {"kind": "model", "n": 112, "bad": ["burst", zero_hits]})
    return acc.res()


def w_model(arg):
    return w_model_bursts(None) if arg == "bursts" else w_model_weights(arg)


def w_seq(arg):
    """all sequences of <= depth calls over {crc, crc(encode), crc_legacy, crc_legacy(encode), icao} on ONE frame string:
    every call must return the stateless reference value whatever was called before (hidden caches, mutated inputs)."""
    frames, depth = arg
    acc = Acc()
    ops = {
        "crc": lambda m: pms.crc(m),
        "crc_enc": lambda m: pms.crc(m, encode=True),
        "legacy": lambda m: PC.crc_legacy(m),
        "legacy_enc": lambda m: PC.crc_legacy(m, encode=True),
        "icao": lambda m: pms.icao(m),
    }
    for k, h in enumerate(frames):
        n = len(h) * 4
        v = int(h, 16)
        want = {"crc": R.remainder(v, n), "legacy": R.remainder(v, n),
                "crc_enc": R.parity(v >> 24, n - 24), "legacy_enc": R.parity(v >> 24, n - 24)}
        letters = [i for i, c in enumerate(h) if c in "ABCDEF"]
        idx = 0
        for L in range(1, depth + 1):
            for seq in itertools.product(sorted(ops), repeat=L):
                # every sequence starts from the initial state: it gets its own spelling (letter-case pattern) of the
                # frame, so that state keyed on the string (caches) cannot leak from one sequence into the next
                idx += 1
                m = list(h)
                for b, pos in enumerate(letters):
                    if (idx >> b) & 1:
                        m[pos] = m[pos].lower()
                m = "".join(m)
                for i, op in enumerate(seq):
                    got = ops[op](m)
                    acc.n += 1
                    if op in want and got != want[op]:
                        acc.bad("%s:result_depends_on_previous_calls" % op.replace("_enc", ""),
                                {"kind": "seq", "msg": m, "ops": list(seq[:i + 1])})
                        break
        if (1 << len(letters)) <= idx:
            raise SystemExit("HARNESS-ERROR: frame %s has too few hex letters for %d isolated sequences" % (h, idx))
        acc.out.add((n, "seq", v))
    return acc.res()


DISPATCH = {}


INTER_FRAMES = ["8D406B902015A678D4D220AA4BDA", "8D4840D6202CC371C32CE0576098", "A0001838CA3800315800007448D9",
                "5D484FDEA248F5", "02E197B00179C3", "8d406b902015a678d4d220000000", "FFFFFFFFFFFFFFFFFFFFFFFFFFFF"]


def w_inter(bound):
    """re-entrancy (preemption bound 1, engine.interleave): a checksum computation suspended before each of its source
    lines while another one - other frame, other length, encode mode, the legacy routine - runs to completion."""
    from engine.util import interleaved_ok
    acc = Acc()
    fr = INTER_FRAMES
    for fn, tuples, others in (
            ("crc", [(fr[0],), (fr[3],), (fr[5],), (fr[1], True)], [(pms.common.crc_legacy, (fr[2],))]),
            ("crc_legacy", [(fr[0],), (fr[4],)], [(pms.common.crc, (fr[1],)), (pms.common.crc, (fr[3], True))])):
        bad_, n = interleaved_ok(getattr(pms.common, fn), tuples, others, bound=bound or 1)
        acc.n += n
        acc.c["interleaved_schedules"] += n
        for a_, nm, k_ in bad_:
            acc.bad("%s:answer_changes_when_another_call_runs_in_between" % fn, {"kind": "inter", "fn": fn, "a": list(a_), "with": nm, "preempt_before_line_event": k_, "bound": bound or 1})
        acc.out.add(("inter", fn))
    return acc.res()


def w_any(t):
    name, arg = t
    if not DISPATCH:
        DISPATCH.update(weight=w_weight, bytes=w_bytes, encode=w_encode, conf=w_conf, model=w_model, seq=w_seq, vanish=w_vanish, inter=w_inter)
    r = DISPATCH[name](arg)
    r["c"]["impl_calls_" + name] = r["c"].get("impl_calls_" + name, 0) + (0 if name == "model" else r["n"])
    return r


def run(ctx):
    DISPATCH.update(weight=w_weight, bytes=w_bytes, encode=w_encode, conf=w_conf, model=w_model, seq=w_seq, vanish=w_vanish, inter=w_inter)
    fns = ("crc", "crc_legacy")
    maxw = 4 if ctx.thorough else 3
    tasks = [("model", "bursts"), ("model", 112), ("model", 56)]
    bt = [(n, p, None, fns) for n in LENS for p in range(n // 8)]
    if ctx.thorough:
        bt += [(n, p, q, ("crc",)) for n in LENS for p in range(n // 8) for q in range(p + 1, n // 8)]
    else:
        # quick: a third of the byte pairs inside the 4-byte division window
        bt += [(n, p, q, ("crc",)) for n in LENS for p in range(n // 8) for q in (p + 1, p + 3, p + 4) if q < n // 8][::3]
    tasks += [("bytes", t) for t in bt if t[2] is not None]
    for w in range(maxw, 0, -1):
        for n in LENS:
            for i0 in range(n - w + 1):
                tasks.append(("weight", (n, w, i0, fns if w <= 3 else ("crc",))))
    tasks += [("weight", (n, 0, 0, fns)) for n in LENS]
    tasks += [("vanish", (n, ctx.seed + j)) for n in LENS for j in range(8 if ctx.thorough else 2)]
    tasks += [("bytes", t) for t in bt if t[2] is None]
    for n in LENS:
        dc = _data_corpus(n, ctx.seed)
        tasks += [("encode", (n, dc[i:i + 40])) for i in range(0, len(dc), 40)]
    # conformance: valid frames + errors through the real crc
    bases = {
        112: [int("8D406B902015A678D4D220AA4BDA", 16), R.downlink(int("A0001838201584F23468207CDFA5", 16) >> 24, 112),
              R.downlink((1 << 88) - 1, 112)],
        56: [R.downlink(int("5D484FDE", 16), 56), R.downlink(0x20000000, 56)],
    }
    maxlen = 16 if ctx.thorough else 12
    for n in LENS:
        for b in bases[n]:
            tasks += [("conf", (n, b, "w3", i0, 0)) for i0 in range(n)]
            tasks += [("conf", (n, b, "burst", i0, maxlen)) for i0 in range(n)]
    sq = []
    need = 10 if ctx.thorough else 8          # 2^need letter-case spellings >= number of sequences per frame
    for n in LENS:
        for df in (0, 4, 5, 11, 16, 17, 20, 21):
            # search data fields until the frame has enough hex letters to give every sequence its own spelling
            for salt in range(1, 4000):
                data = (df << (n - 29)) | ((0xABCDEF * salt * 2654435761) & ((1 << (n - 29)) - 1))
                for fr in (R.downlink(data, n, 0xFADEBC), R.downlink(data, n, 0) ^ (1 << 25)):
                    h = R.hexf(fr, n)
                    if sum(c in "ABCDEF" for c in h) >= need and h not in sq:
                        sq.append(h)
                if sum(1 for x in sq if len(x) * 4 == n and (int(x, 16) >> (n - 5)) == df) >= 2:
                    break
    tasks += [("seq", (sq[i:i + 4], 4 if ctx.thorough else 3)) for i in range(0, len(sq), 4)]
    ctx.cov["transitions"] = 0
    tasks.append(("inter", None))
    if ctx.thorough:
        tasks.append(("inter", 2))
    ctx.pmap(w_any, tasks)
    ctx.cov.update({
        "traces_validated_against_impl": int(ctx.n),
        "exhaustive": True,
        "bound": "impl: weight<=%d, all byte values, %s byte pairs; model: weight<=5, all 24-bit windows at all offsets"
                 % (maxw, "all" if ctx.thorough else "a third of the window-adjacent"),
        "explanation": "states = LFSR states swept (2^24, the full state space); transitions = LFSR steps plus "
                       "weight<=5 supports evaluated on the syndrome model; traces validated = real crc()/crc_legacy() "
                       "executions compared with the reference remainder",
    })
    ctx.samples.append({"frame": "8D406B902015A678D4D220AA4BDA", "crc": pms.crc("8D406B902015A678D4D220AA4BDA")})


def replay(case):
    acc = Acc()
    k = case["kind"]
    if k == "inter":
        return [(s_, c_) for s_, c_ in w_inter(case.get("bound"))["viols"] if c_["fn"] == case["fn"]][:1]
    if k == "rem":
        n = len(case["msg"]) * 4
        _judge_frame(acc, (case["fn"],), int(case["msg"], 16), n)
    elif k in ("enc", "closure"):
        n = len(case["msg"]) * 4
        w = w_encode((n, [int(case["msg"], 16) >> 24]))
        return w["viols"]
    elif k == "err":
        n = len(case["base"]) * 4
        if pms.crc(R.hexf(int(case["base"], 16) ^ int(case["err"], 16), n)) == 0:
            e = int(case["err"], 16)
            w = bin(e).count("1")
            acc.bad("crc:undetected_error:weight%d" % w, case)
            acc.bad("crc:undetected_error:burst", case)
    elif k == "seq":
        m = case["msg"]
        n = len(m) * 4
        v = int(m, 16)
        want = {"crc": R.remainder(v, n), "legacy": R.remainder(v, n), "crc_enc": R.parity(v >> 24, n - 24), "legacy_enc": R.parity(v >> 24, n - 24)}
        ops = {"crc": lambda x: pms.crc(x), "crc_enc": lambda x: pms.crc(x, encode=True), "legacy": lambda x: PC.crc_legacy(x),
               "legacy_enc": lambda x: PC.crc_legacy(x, encode=True), "icao": lambda x: pms.icao(x)}
        for op in case["ops"]:
            got = ops[op](m)
            if op in want and got != want[op]:
                acc.bad("%s:result_depends_on_previous_calls" % op.replace("_enc", ""), case)
                break
    elif k in ("model", "binding"):
        out = []
        for a in ("bursts", 112, 56):
            out += w_model(a)["viols"]
        return out
    return acc.viols
