"""C04 - CPR decode with a reference position (airborne and surface)."""
from fractions import Fraction as Fr

from engine import loader
from engine.runner import Acc
from engine.util import ca_for, call, chunks, vary_case
from spec import cpr as C
from spec import cprsets as S
from spec import frames as F

LEVEL = "exploration"
RULE = ("true positions = breakpoint-directed latitude x longitude alphabets (as C03; surface on the 90-degree lattice) "
        "x parity {0,1} x airborne/surface x reference offsets (dlat, dlon) in {0, +-1/4, +-0.49, +-(1/2-1e-6)} of the "
        "zone size in each axis independently (49 references; thorough 13x13), references wrapped to [-180,180) and "
        "clipped to |lat|<=90; every reference must give the encoder's position (metamorphic: all equal); "
        "distinct = distinct (surface, parity, yz, xz)")
ASSUMPTIONS = ["re-entrancy: a decode suspended at a source-line boundary while another decode runs to completion (one preemption) must give its isolated answer",
               "zone size in longitude is taken at the encoded latitude (Dlon_i of the encoder)",
               "positions within 1e-9 deg of an NL transition are skipped (either NL admissible)",
               "longitude compared modulo 360 as the property states"]

pms = loader.load("P")
OFF7 = [Fr(0), Fr(1, 4), Fr(-1, 4), Fr(49, 100), Fr(-49, 100), Fr(1, 2) - Fr(1, 10 ** 6), -Fr(1, 2) + Fr(1, 10 ** 6)]
OFF13 = sorted(set(OFF7 + [Fr(1, 10), Fr(-1, 10), Fr(2, 5), Fr(-2, 5), Fr(499, 1000), Fr(-499, 1000)]))


def judge(p):
    fn, msg, lat_ref, lon_ref, exp = p
    f = getattr(pms.adsb, fn)
    r = call(f, msg, lat_ref, lon_ref)
    kind = "surface" if exp[4] else "airborne"
    if r[0] != "ok":
        return "withref:%s:raises:%s" % (kind, r[1])
    try:
        lat, lon = r[1]
        dlat = abs(lat - exp[0])
        dlon = C.lon_diff(lon, exp[1])
    except Exception:
        return "withref:%s:bad_shape" % kind
    if dlat > exp[2] + 1e-9:
        return "withref:%s:wrong_lat:%s" % (kind, exp[5])
    if dlon > exp[3] + 1e-9:
        return "withref:%s:wrong_lon:%s" % (kind, exp[5])
    return None


def refclass(lat, latr, lon, lonr):
    c = []
    if (lat < 0) != (latr < 0):
        c.append("across_equator")
    if abs(float(lon) - float(lonr)) > 180:
        c.append("across_antimeridian")
    elif (lon < 0) != (lonr < 0):
        c.append("across_lon0")
    return "+".join(c) or "same_quadrant"


def w_lats(arg):
    lats, surface, offs, seed = arg
    acc = Acc()
    k = seed
    tcs = [5, 6, 7, 8] if surface else [9, 13, 18, 20, 22]
    for lat in lats:
        for lon in S.lon_alphabet(lat, surface, False):
            for i in (0, 1):
                k += 1
                e = C.encode(lat, lon, i, surface)
                tc = tcs[k % len(tcs)]
                if C.near_transition(e["rlat"], C.EPS):
                    # either NL admissible: only totality is judged (no exception, finite pair)
                    acc.c["near_transition_only_totality_judged"] += 1
                    me0 = (C.me_surface(tc, 1, 0, 0, i, e["yz"], e["xz"]) if surface else C.me_airborne(tc, 0, i, e["yz"], e["xz"]))
                    m_ = F.es(me0, 0x406B90, 5, 17)
                    for latr_ in (float(e["rlat"]), float(e["rlat"]) - 0.2):
                        acc.n += 1
                        r_ = call(pms.adsb.position_with_ref, m_, latr_, float(S.wrap180(e["rlon"])))
                        if r_[0] != "ok" or not (isinstance(r_[1], tuple) and len(r_[1]) == 2 and all(x == x and abs(x) < 1e4 for x in r_[1])):
                            acc.bad("withref:raises_or_malformed_at_a_transition_latitude:%s" % (r_[1] if r_[0] != "ok" else "shape"),
                                    {"totality": [m_, latr_, float(S.wrap180(e["rlon"]))]})
                    continue
                if surface:
                    me = C.me_surface(tc, k % 128, k % 2, (k * 7) % 128, i, e["yz"], e["xz"], t=k % 2)
                else:
                    me = C.me_airborne(tc, (k * 37) % 4096, i, e["yz"], e["xz"], ss=k % 4, saf=k % 2, t=k % 2)
                msg = vary_case(F.es(me, [0x406B90, 0xFFFFFF][k % 2], ca_for(17 + k % 2, k // 2), 17 + k % 2), k // 3)
                acc.out.add((surface, i, e["yz"], e["xz"]))
                zlat, zlon = e["dlat"], e["dlon"]
                tol = (float(zlat) / 131072, float(zlon) / 131072)
                for a in offs:
                    latr = e["rlat"] + a * zlat
                    if not (-90 <= latr <= 90):
                        continue
                    for b in offs:
                        lonr = S.wrap180(e["rlon"] + b * zlon)
                        exp = [float(e["rlat"]), float(e["rlon"]), tol[0], tol[1], surface,
                               refclass(e["rlat"], latr, S.wrap180(e["rlon"]), lonr)]
                        fns = ["position_with_ref"] if (a or b) else ["position_with_ref", "surface_position_with_ref" if surface else "airborne_position_with_ref"]
                        for fn in fns:
                            acc.n += 1
                            s = judge((fn, msg, float(latr), float(lonr), exp))
                            if s:
                                acc.bad(s, {"p": [fn, msg, float(latr), float(lonr), exp], "ref_offset_zone": [float(a), float(b)], "i": i})
    if lats:
        acc.samples.append({"surface": surface, "msg": msg, "ref": [float(latr), float(lonr)], "expected": exp[:2]})
    return acc.res()


def w_corner(surface):
    """joint conditions on the raw fields: CPR latitude / longitude fields at corner values (0, 1, low-12-bits-zero
    multiples, top bit only, all ones) x format bit x every other ME field (type code, altitude / movement, T, SS, SAF,
    track) at ITS corner values.  Oracle without a position model: for fixed (F, YZ, XZ, reference) the answer must be
    a finite pair, the same for every setting of the other fields, within half a zone of the reference, and it must
    re-encode to the same CPR fields."""
    acc = Acc()
    cprs = [0, 1, 4096, 0x1F000, 0x10000, 0x0FFFF, 0x1FFFF, 0x0A000]
    tcs = [5, 6, 7, 8] if surface else list(range(9, 19)) + [20, 21, 22]
    refs = [(49.9, 0.05), (-33.2, -179.9), (0.4, 179.8)]
    for i in (0, 1):
        for yz in cprs:
            for xz in cprs:
                for latr, lonr in refs:
                    seen = None
                    k = 0
                    for tc in tcs:
                        others = ([(0, 0, 0), (127, 1, 127), (1, 1, 0), (124, 0, 64)] if surface else
                                  [(0, 0, 0), (0xFFF, 3, 1), (1, 0, 1), (0x800, 2, 0), (0x010, 1, 1)])
                        for o in others:
                            for t in (0, 1):
                                k += 1
                                if surface:
                                    me = C.me_surface(tc, o[0], o[1], o[2], i, yz, xz, t=t)
                                else:
                                    me = C.me_airborne(tc, o[0], i, yz, xz, ss=o[1], saf=o[2], t=t)
                                msg = vary_case(F.es(me, 0x4840D6, ca_for(17 + k % 2, k), 17 + k % 2), k // 2)
                                acc.n += 1
                                r = call(pms.adsb.position_with_ref, msg, latr, lonr)
                                case = {"corner": [msg, latr, lonr, surface, i, yz, xz]}
                                if r[0] != "ok" or not (isinstance(r[1], tuple) and len(r[1]) == 2 and all(isinstance(x, float) and x == x for x in r[1])):
                                    acc.bad("withref:%s:no_position_for_a_well_formed_frame:%s" % ("surface" if surface else "airborne", r[1] if r[0] != "ok" else "None_or_shape"), case)
                                    continue
                                if seen is None:
                                    seen = r[1]
                                    la, lo = r[1]
                                    span = 90.0 if surface else 360.0
                                    if abs(la - latr) > span / (60 - i) / 2 + 1e-6:
                                        acc.bad("withref:%s:result_more_than_half_a_zone_from_the_reference" % ("surface" if surface else "airborne"), case)
                                    elif abs(la) <= 90:
                                        e = C.encode(Fr(la).limit_denominator(10 ** 12), Fr(lo).limit_denominator(10 ** 12), i, surface)
                                        if (e["yz"] - yz) % 131072 not in (0, 1, 131071) or ((e["xz"] - xz) % 131072 not in (0, 1, 131071) and abs(la) < 86.9):
                                            acc.bad("withref:%s:result_does_not_carry_the_frame's_CPR_fields" % ("surface" if surface else "airborne"), case)
                                elif r[1] != seen:
                                    acc.bad("withref:%s:result_depends_on_bits_outside_the_CPR_fields" % ("surface" if surface else "airborne"), case)
                    acc.out.add(("corner", surface, i, yz, xz))
    return acc.res()


def w_guard(_):
    acc = Acc()
    for tc in range(32):
        me = F.me(tc, rest=0x123456789AB)
        msg = F.es(me)
        r = call(pms.adsb.position_with_ref, msg, 10.0, 10.0)
        acc.n += 1
        if 5 <= tc <= 22 and tc != 19:
            if r[0] != "ok":
                acc.bad("withref:routing:rejects_position_tc", {"guard": msg})
        elif r != ("exc", "RuntimeError"):
            acc.bad("withref:routing:accepts_non_position_tc", {"guard": msg})
    return acc.res()


def inter_cases():
    def fr(lat, lon, i, surface, aa):
        e = C.encode(Fr(lat).limit_denominator(10 ** 6), Fr(lon).limit_denominator(10 ** 6), i, surface)
        me = C.me_surface(7, 12, 1, 40, i, e["yz"], e["xz"]) if surface else C.me_airborne(11, 0xC38, i, e["yz"], e["xz"])
        return F.es(me, aa, 5, 17)
    return [(fr(52.25, 4.76, 0, False, 0x4840D6), 52.0, 4.0), (fr(-33.4, 151.2, 1, False, 0x7C1234), -33.0, 151.0),
            (fr(10.1, -75.5, 1, False, 0x0D0001), 10.0, -75.0), (fr(52.31, 4.76, 0, True, 0x4840D6), 52.3, 4.7),
            (fr(-33.94, 151.17, 1, True, 0x7C1234), -33.9, 151.2), (fr(40.64, -73.78, 0, True, 0xA00001), 40.6, -73.8)]


def w_inter(bound):
    """re-entrancy (preemption bound 1, engine.interleave): a decode with reference suspended before each of its source
    lines while the decode of another aircraft's frame (airborne or surface, either parity) runs to completion."""
    from engine.util import interleaved_ok
    acc = Acc()
    cases = inter_cases()
    for fn in ("position_with_ref", "airborne_position_with_ref", "surface_position_with_ref"):
        f = getattr(pms.adsb, fn)
        own = cases[:3] if fn.startswith("air") else cases[3:] if fn.startswith("surf") else cases
        bad_, n = interleaved_ok(f, own, bound=bound or 1)
        acc.n += n
        acc.c["interleaved_schedules"] += n
        for a_, nm, k_ in bad_:
            acc.bad("withref:answer_changes_when_another_call_runs_in_between", {"inter": fn, "a": list(a_), "preempt_before_line_event": k_, "bound": bound or 1})
        acc.out.add(("inter", fn))
    return acc.res()


def w_refforms(_):
    """the reference given in other numeric types: Python int, numpy int16 / int32 / int64 / float32 / float64, for targets
    close to whole-degree references all around the globe (the decode must not be carried out in the reference's type)."""
    import numpy as np
    acc = Acc()
    k = 0
    for surface in (False, True):
        for latr in (-60, -33, -1, 0, 1, 20, 47, 68):
            for lonr in (-179, -157, -139, -90, -1, 0, 1, 45, 118, 139, 144, 178):
                for dlat, dlon in ((0.21, 0.17), (-0.19, -0.23)):
                    lat, lon = Fr(latr) + Fr(dlat).limit_denominator(1000), S.wrap180(Fr(lonr) + Fr(dlon).limit_denominator(1000))
                    for i in (0, 1):
                        k += 1
                        e = C.encode(lat, lon, i, surface)
                        if C.near_transition(e["rlat"], C.EPS):
                            continue
                        me = C.me_surface(7, 12, 1, 40, i, e["yz"], e["xz"]) if surface else C.me_airborne(11, 0xC38, i, e["yz"], e["xz"])
                        msg = F.es(me, 0x4840D6, 5, 17 + k % 2)
                        exp = [float(e["rlat"]), float(e["rlon"]), float(e["dlat"]) / 131072, float(e["dlon"]) / 131072, surface, "reference_type"]
                        for tname, conv in (("int", int), ("int16", np.int16), ("int32", np.int32), ("int64", np.int64),
                                            ("float32", np.float32), ("float64", np.float64)):
                            acc.n += 1
                            r = call(pms.adsb.position_with_ref, msg, conv(latr), conv(lonr))
                            ok = r[0] == "ok" and isinstance(r[1], tuple) and len(r[1]) == 2 and \
                                abs(r[1][0] - exp[0]) <= exp[2] + 1e-9 and C.lon_diff(r[1][1], exp[1]) <= exp[3] + 1e-9
                            if not ok:
                                acc.bad("withref:%s:wrong_or_raises_for_reference_of_type:%s" % ("surface" if surface else "airborne", tname),
                                        {"refform": [msg, latr, lonr, tname, exp]})
        acc.out.add(("refforms", surface))
    return acc.res()


def w_any(t):
    if t[0] == "f":
        return w_refforms(None)
    if t[0] == "i":
        return w_inter(t[1])
    if t[0] == "c":
        return w_corner(t[1])
    return w_guard(None) if t[0] == "g" else w_lats(t[1])


def run(ctx):
    offs = OFF13 if ctx.thorough else OFF7
    tasks = [("g", None), ("c", False), ("c", True), ("i", None), ("f", None)] + ([("i", 2)] if ctx.thorough else [])
    for surface in (False, True):
        lats = S.lat_alphabet(surface, ctx.thorough)
        if not ctx.thorough:
            lats = lats[::2] + lats[1::6]
        tasks += [("l", (c, surface, offs, ctx.seed)) for c in chunks(lats, 8)]
    ctx.pmap(w_any, tasks)
    ctx.cov["reference_offsets_per_position"] = len(offs) ** 2


def replay(case):
    if "refform" in case:
        return [(s_, c_) for s_, c_ in w_refforms(None)["viols"] if c_["refform"][:4] == case["refform"][:4]][:1]
    if "inter" in case:
        return [(s_, c_) for s_, c_ in w_inter(case.get("bound"))["viols"] if c_["inter"] == case["inter"]][:1]
    if "totality" in case:
        m_, la, lo = case["totality"]
        r_ = call(pms.adsb.position_with_ref, m_, la, lo)
        ok = r_[0] == "ok" and isinstance(r_[1], tuple) and len(r_[1]) == 2 and all(x == x and abs(x) < 1e4 for x in r_[1])
        return [] if ok else [("withref:raises_or_malformed_at_a_transition_latitude:%s" % (r_[1] if r_[0] != "ok" else "shape"), case)]
    if "corner" in case:
        return [(s_, c_) for s_, c_ in w_corner(case["corner"][3])["viols"]]
    if "guard" in case:
        return [(s, c) for s, c in w_guard(None)["viols"]]
    s = judge(tuple(case["p"]))
    return [(s, case)] if s else []
