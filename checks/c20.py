"""C20 - standard atmosphere and airspeed conversions on a lattice; distance / bearing on a coordinate lattice."""
import math

import numpy as np

from engine import loader
from engine.runner import Acc
from engine.util import chunks
from spec import isa as I

LEVEL = "exploration"
RULE = ("altitude lattice -500..20000 m step 25 m (thorough 0.25 m) plus 11000 +- {1e-9,1e-6,1e-3,1} and the float "
        "neighbours of 11000; speed lattice 0.5..450 m/s step 0.5; Mach 0.01..1.30 step 0.01; every (altitude, speed) "
        "pair through the ndarray path and a sub-lattice element-wise through the scalar path; coordinates on a 15-degree "
        "(thorough 3) lattice incl. poles, antimeridian, coincident and antipodal pairs; argument buffers reused and updated in place between calls and returned arrays overwritten by the caller; distinct = lattice points")
ASSUMPTIONS = ["real-valued domain: nothing is claimed between lattice points",
               "ISA reference from ISO 2533 constants; tolerance 0.1 % as the property states",
               "round trips within 1e-7 relative (the (1+x)^3.5-1 form loses ~1e-10 at 0.5 m/s)",
               "distance vs haversine within 1e-6 relative or 1 m absolute"]

pms = loader.load("P")
aero = pms.aero
V = np.arange(0.5, 450.0001, 0.5)
M = np.arange(0.01, 1.3001, 0.01)


def alts(thorough):
    a = list(np.arange(-500.0, 20000.0001, 0.25 if thorough else 25.0))
    for d in (1e-9, 1e-6, 1e-3, 1.0):
        a += [11000.0 - d, 11000.0 + d]
    x = y = 11000.0
    for _ in range(4):
        x, y = math.nextafter(x, math.inf), math.nextafter(y, -math.inf)
        a += [x, y]
    return sorted(set(a))


def rel(a, b):
    return np.abs(a - b) / np.maximum(np.abs(b), 1e-300)


def w_alt(arg):
    Hs = arg
    acc = Acc()

    def bad(sig, H, extra=None):
        acc.bad(sig, {"kind": "alt", "H": float(H), "H_hex": float(H).hex(), "extra": extra})
    for H in Hs:
        p, rho, T = aero.atmos(H)
        pr, rr, Tr = I.atmos(H)
        acc.n += 1
        if not (abs(p - pr) <= 1e-3 * pr and abs(rho - rr) <= 1e-3 * rr and abs(T - Tr) <= 1e-3 * Tr):
            bad("isa:deviates_more_than_0.1pct:%s" % ("stratosphere" if H > 11000 else "troposphere"), H)
        if not (aero.pressure(H) == p and aero.density(H) == rho and aero.temperature(H) == T):
            bad("isa:accessor_differs_from_atmos", H)
        a = aero.vsound(H)
        if abs(a - math.sqrt(1.4 * I.R * Tr)) > 1e-3 * a:
            bad("isa:vsound", H)
        # conversions over the whole speed lattice (ndarray path)
        cas = aero.tas2cas(V, H)
        eas = aero.tas2eas(V, H)
        mach = aero.tas2mach(V, H)
        acc.n += 3 * V.size
        checks = [("tas<->cas", aero.cas2tas(cas, H), V), ("tas<->eas", aero.eas2tas(eas, H), V),
                  ("tas<->mach", aero.mach2tas(mach, H), V), ("cas->tas->cas", aero.tas2cas(aero.cas2tas(V, H), H), V),
                  ("mach<->cas", aero.cas2mach(aero.mach2cas(M, H), H), M), ("cas<->mach", aero.mach2cas(aero.cas2mach(V, H), H), V)]
        for name, got, want in checks:
            acc.n += want.size
            if not np.all(np.isfinite(got)) or np.any(rel(got, want) > 1e-7):
                bad("conv:not_inverse:%s" % name, H)
        for name, arr in (("tas2cas", cas), ("tas2eas", eas), ("tas2mach", mach), ("cas2tas", aero.cas2tas(V, H)),
                          ("eas2tas", aero.eas2tas(V, H)), ("mach2tas", aero.mach2tas(M, H)), ("mach2cas", aero.mach2cas(M, H)),
                          ("cas2mach", aero.cas2mach(V, H))):
            if not np.all(np.diff(arr) > 0):
                bad("conv:not_strictly_increasing:%s" % name, H)
        if H == 0.0:
            if np.any(rel(cas, V) > 1e-7) or np.any(rel(eas, V) > 1e-12):
                bad("conv:sea_level_CAS_EAS_TAS_differ", H)
        if H > 0:
            if np.any(eas > V * (1 + 1e-12)) or np.any(eas > cas * (1 + 1e-9)):
                bad("conv:ordering_TAS>=EAS_CAS>=EAS_violated", H)
        # scalar path on a sub-lattice must equal the array path
        for i in range(0, V.size, 97):
            v = float(V[i])
            acc.n += 1
            # tas2cas goes twice through the (1 + x)^k - 1 form: at 0.5 m/s one ulp of difference between numpy's scalar and
            # vector pow is amplified to about 2e-9 relative (seen at 15 178.25 m on the 0.25 m lattice); the stated
            # tolerance for the conversions is 1e-7
            for f, arr, tol in ((aero.tas2cas, cas, 1e-7), (aero.tas2eas, eas, 1e-9), (aero.tas2mach, mach, 1e-9)):
                if rel(np.float64(f(v, H)), arr[i]) > tol:
                    bad("conv:scalar_differs_from_array:%s" % f.__name__, H, v)
        acc.out.add(float(H))
    return acc.res()


def w_tropopause(_):
    acc = Acc()
    lo = math.nextafter(11000.0, -math.inf)
    hi = math.nextafter(11000.0, math.inf)
    for f in (aero.pressure, aero.density, aero.temperature, aero.vsound):
        a, b, c = f(lo), f(11000.0), f(hi)
        acc.n += 1
        if not (abs(a - b) <= 1e-6 * abs(b) and abs(c - b) <= 1e-6 * abs(b)):
            acc.bad("isa:discontinuous_at_tropopause", {"kind": "trop", "f": f.__name__})
    Hs = np.array(alts(False))
    p, rho, T = aero.atmos(Hs)
    for i in range(0, Hs.size, 50):
        ps, rs, Ts = aero.atmos(float(Hs[i]))
        acc.n += 1
        if not (rel(p[i], ps) < 1e-9 and rel(rho[i], rs) < 1e-9 and rel(T[i], Ts) < 1e-9):
            acc.bad("isa:array_differs_from_scalar", {"kind": "trop", "f": "atmos"})
    coarse = np.arange(-500.0, 20000.0001, 25.0)
    pc, rc, _ = aero.atmos(coarse)
    if np.any(np.diff(p) > 0) or np.any(np.diff(rho) > 0) or np.any(np.diff(pc) >= 0) or np.any(np.diff(rc) >= 0):
        acc.bad("isa:pressure_or_density_not_decreasing_with_altitude", {"kind": "trop", "f": "atmos"})
    return acc.res()


def w_alias(_):
    """callers that reuse and update an altitude / speed buffer in place between calls, and that modify returned arrays:
    every call must still equal the result for a freshly allocated argument."""
    acc = Acc()
    fns1 = [aero.pressure, aero.density, aero.temperature, aero.vsound]
    fns2 = [aero.tas2cas, aero.cas2tas, aero.tas2eas, aero.eas2tas, aero.tas2mach, aero.mach2tas, aero.mach2cas, aero.cas2mach]
    steps = [0.0, 5000.0, -300.0, 3000.0, 300.0, 800.0, -9000.0]     # every altitude stays inside [-500 m, 20 km]
    for f in fns1:
        H = np.array([0.0, 5000.0, 10900.0])
        for dh in steps:
            H += dh                                    # in-place update of the caller's buffer
            got = np.array(f(H), dtype=float)
            want = np.array([float(f(float(h))) for h in H])
            acc.n += 1
            if not np.allclose(got, want, rtol=1e-9, atol=0):
                acc.bad("isa:stale_result_for_reused_argument_buffer", {"kind": "alias", "f": f.__name__})
            r = f(H)
            if isinstance(r, np.ndarray):
                r *= 0.0                                   # caller scribbles on the returned array
    for f in fns2:
        H = np.array([0.0, 3000.0, 10900.0])
        V = np.array([0.3, 100.0, 250.0]) if "mach" in f.__name__[:4] else np.array([60.0, 150.0, 260.0])
        if f.__name__.startswith("mach"):
            V = np.array([0.3, 0.6, 0.85])
        for k, dh in enumerate(steps):
            H += dh
            V *= 1.01
            got = np.array(f(V, H), dtype=float)
            want = np.array([float(f(float(v), float(h))) for v, h in zip(V, H)])
            acc.n += 1
            if not np.allclose(got, want, rtol=1e-9, atol=0):
                acc.bad("conv:stale_result_for_reused_argument_buffer", {"kind": "alias", "f": f.__name__})
            r = f(V, H)
            if isinstance(r, np.ndarray):
                r *= 0.0
        # the arguments themselves must not be modified by the call
        H0, V0 = H.copy(), V.copy()
        f(V, H)
        acc.n += 1
        if not (np.array_equal(H, H0) and np.array_equal(V, V0)):
            acc.bad("conv:argument_array_modified_by_the_call", {"kind": "alias", "f": f.__name__})
    # distance / bearing with array arguments (coordinates and the optional altitude H, float and int): the same buffers
    # passed again must give the same answer, nothing the caller passed may be modified, symmetry must hold call after call
    la1, lo1 = np.array([52.3, -33.9, 10.0, 89.0]), np.array([4.8, 151.2, 179.9, -60.0])
    la2, lo2 = np.array([40.6, -37.0, 10.5, -89.0]), np.array([-73.8, 174.8, -179.9, 120.0])
    for Harr in (np.array([0.0, 1000.0, 11000.0, 20000.0]), np.array([0, 1000, 11000, 20000]), np.array(5000.0), 3000.0, 0):
        keep = [np.array(x, copy=True) for x in (la1, lo1, la2, lo2, Harr)]
        want = np.array([float(aero.distance(float(a), float(b), float(c), float(d), float(h))) for a, b, c, d, h in
                         zip(la1, lo1, la2, lo2, np.broadcast_to(np.asarray(Harr, dtype=float), la1.shape))])
        for rep in range(3):
            acc.n += 2
            d12 = np.asarray(aero.distance(la1, lo1, la2, lo2, Harr), dtype=float)
            d21 = np.asarray(aero.distance(la2, lo2, la1, lo1, Harr), dtype=float)
            if not (np.allclose(d12, want, rtol=1e-9, atol=1e-3) and np.allclose(d21, want, rtol=1e-9, atol=1e-3)):
                acc.bad("distance:result_changes_when_the_same_argument_arrays_are_passed_again", {"kind": "alias", "f": "distance", "H": repr(Harr)[:40], "call": rep})
                break
            b = np.asarray(aero.bearing(la1, lo1, la2, lo2), dtype=float)
            if not np.all((b >= 0) & (b < 360)):
                acc.bad("bearing:outside_[0,360)", {"kind": "alias", "f": "bearing"})
        if not all(np.array_equal(x, y) for x, y in zip(keep, (la1, lo1, la2, lo2, Harr))):
            acc.bad("distance:argument_array_modified_by_the_call", {"kind": "alias", "f": "distance", "H": repr(Harr)[:40]})
    # scalar calls interleaved with array calls on equal values
    for f in fns1:
        a = float(f(11000.0))
        f(np.array([0.0, 11000.0]))
        b = float(f(11000.0))
        acc.n += 1
        if a != b:
            acc.bad("isa:scalar_result_depends_on_previous_array_call", {"kind": "alias", "f": f.__name__})
    # array layouts: every function must treat an array as the element-wise map it is, whatever the memory layout -
    # 2-d C-ordered, Fortran-ordered, transposed, strided / reversed views, broadcast views, 0-d, a column, integer dtype
    base = np.array([[0.0, 2500.0, 5000.0], [9000.0, 11000.0, 15000.0]])
    spd = np.array([[60.0, 120.0, 180.0], [200.0, 230.0, 250.0]])
    layouts = [("C", lambda a: np.ascontiguousarray(a)), ("F", lambda a: np.asfortranarray(a)), ("T", lambda a: np.ascontiguousarray(a.T).T),
               ("T2", lambda a: a.T), ("rev", lambda a: a[::-1, ::-1]), ("strided", lambda a: np.repeat(a, 2, axis=1)[:, ::2]),
               ("col", lambda a: a.reshape(-1, 1)), ("0d", lambda a: np.array(a.flat[4])), ("int", lambda a: a.astype(np.int64)),
               ("int32", lambda a: a.astype(np.int32)), ("int16", lambda a: a.astype(np.int16)), ("uint16", lambda a: a.astype(np.uint16)),
               ("f32", lambda a: a.astype(np.float32).astype(np.float64)), ("3d", lambda a: a.reshape(1, 2, 3))]
    for lname, mk in layouts:
        H = mk(base)
        for f in fns1:
            got = np.asarray(f(H), dtype=float)
            want = np.vectorize(lambda h: float(f(float(h))))(np.asarray(H, dtype=float))
            acc.n += 1
            if got.shape != np.shape(H) or not np.allclose(got, want, rtol=1e-9, atol=0):
                acc.bad("isa:array_result_is_not_the_elementwise_map:%s" % lname, {"kind": "alias", "f": f.__name__})
        for f in fns2:
            V = mk(np.array([[0.3, 0.4, 0.5], [0.6, 0.7, 0.8]]) if f.__name__.startswith("mach") else spd)
            if "int" in lname:
                V = mk(spd) if not f.__name__.startswith("mach") else np.array([[0.3, 0.4, 0.5], [0.6, 0.7, 0.8]])
            got = np.asarray(f(V, H), dtype=float)
            want = np.vectorize(lambda v, h: float(f(float(v), float(h))))(np.asarray(V, dtype=float), np.asarray(H, dtype=float))
            acc.n += 1
            if got.shape != np.shape(H) or not np.allclose(got, want, rtol=1e-9, atol=0):
                acc.bad("conv:array_result_is_not_the_elementwise_map:%s" % lname, {"kind": "alias", "f": f.__name__})
    acc.out.add(("alias",))
    acc.out.add(("alias2",))
    acc.out.add(("layouts", len(layouts)))
    return acc.res()


def coords(step):
    lats = sorted(set(list(np.arange(-90, 90.0001, step)) + [-89.999, 89.999, 0.0, 1e-7]))
    lons = sorted(set(list(np.arange(-180, 180.0001, step)) + [179.999, -179.999, 0.0]))
    return lats, lons


def judge_geo(lat1, lon1, lat2, lon2):
    d12 = aero.distance(lat1, lon1, lat2, lon2)
    d21 = aero.distance(lat2, lon2, lat1, lon1)
    h = I.haversine(lat1, lon1, lat2, lon2)
    if not (np.isfinite(d12) and np.isfinite(d21)):
        return "distance:not_finite"
    if abs(d12 - d21) > max(1e-9 * abs(d12), 1e-3):
        return "distance:not_symmetric"
    if abs(d12 - h) > max(1e-6 * h, 1.0):
        return "distance:differs_from_haversine"
    b = aero.bearing(lat1, lon1, lat2, lon2)
    if not (np.isfinite(b) and 0 <= b < 360):
        return "bearing:outside_[0,360)"
    return None


def w_geo(arg):
    pts1, step = arg
    lats, lons = coords(step)
    acc = Acc()
    L2 = np.array([(a, b) for a in lats for b in lons])
    for lat1, lon1 in pts1:
        # vectorised first, scalar only to name a failing pair
        d12 = aero.distance(lat1, lon1, L2[:, 0], L2[:, 1])
        d21 = aero.distance(L2[:, 0], L2[:, 1], lat1, lon1)
        b = aero.bearing(lat1, lon1, L2[:, 0], L2[:, 1])
        hv = np.array([I.haversine(lat1, lon1, x, y) for x, y in L2])
        acc.n += L2.shape[0]
        badm = (~np.isfinite(d12)) | (~np.isfinite(d21)) | (np.abs(d12 - d21) > np.maximum(1e-9 * np.abs(d12), 1e-3)) | \
            (np.abs(d12 - hv) > np.maximum(1e-6 * hv, 1.0)) | ~np.isfinite(b) | (b < 0) | (b >= 360)
        for i in np.nonzero(badm)[0][:20]:
            s = judge_geo(lat1, lon1, float(L2[i, 0]), float(L2[i, 1]))
            if s is None:
                s = "geo:array_differs_from_scalar"
            acc.bad(s, {"kind": "geo", "p": [lat1, lon1, float(L2[i, 0]), float(L2[i, 1])]})
        # antipode and coincident point explicitly (scalar path)
        for lat2, lon2 in ((-lat1, ((lon1 + 360) % 360) - 180), (lat1, lon1)):
            acc.n += 1
            s = judge_geo(lat1, lon1, lat2, lon2)
            if s:
                acc.bad(s + (":antipodal" if lat2 != lat1 or lon2 != lon1 else ":coincident"), {"kind": "geo", "p": [lat1, lon1, lat2, lon2]})
        acc.out.add((lat1, lon1))
    return acc.res()


def w_special(step):
    """antipodal, coincident and near-antipodal / near-coincident pairs (scalar path) for every point of a fine coordinate
    lattice: the clamp of the cosine matters exactly there, and whether it is needed depends on how the products round."""
    lats, lons = coords(step)
    acc = Acc()
    for lat1 in lats:
        for lon1 in lons:
            al, ao = -lat1, ((lon1 + 360) % 360) - 180
            for lat2, lon2, tag in ((al, ao, "antipodal"), (lat1, lon1, "coincident"), (min(90.0, al + 1e-7), ao, "near_antipodal"),
                                    (max(-90.0, lat1 - 1e-7), lon1, "near_coincident")):
                acc.n += 1
                s = judge_geo(lat1, lon1, lat2, lon2)
                if s:
                    acc.bad(s + ":" + tag, {"kind": "geo", "p": [lat1, lon1, lat2, lon2], "tag": tag})
    acc.out.add(("special", step))
    return acc.res()


def w_any(t):
    if t[0] == "s":
        return w_special(t[1])
    return {"a": w_alt, "t": w_tropopause, "g": w_geo, "x": w_alias}[t[0]](t[1])


def run(ctx):
    A = alts(ctx.thorough)
    step = 3.0 if ctx.thorough else 15.0
    lats, lons = coords(step)
    pts = [(a, b) for a in lats for b in lons] + [(10.0, 20.0), (52.3, 4.8), (-33.9, 151.2)]
    tasks = [("t", None), ("x", None), ("s", 3.0), ("s", 2.5)] + ([("s", 1.0), ("s", 0.5)] if ctx.thorough else []) + [("a", c) for c in chunks(A, 16)] + [("g", (c, step)) for c in chunks(pts, 12)]
    ctx.pmap(w_any, tasks)
    ctx.cov["altitudes"] = len(A)
    ctx.cov["speeds"] = int(V.size)
    ctx.cov["coordinate_points"] = len(pts)
    ctx.samples.append({"H": 11000.0, "atmos": [float(x) for x in aero.atmos(11000.0)], "tas2cas(250,11000)": float(aero.tas2cas(250.0, 11000.0))})


def replay(case):
    if case["kind"] == "alt":
        r = w_alt([float.fromhex(case["H_hex"])])
        return r["viols"]
    if case["kind"] == "alias":
        return w_alias(None)["viols"]
    if case["kind"] == "trop":
        return w_tropopause(None)["viols"]
    s = judge_geo(*case["p"])
    if not s:
        return []
    return [(s, case), (s + ":antipodal", case), (s + ":coincident", case), (s + ":near_antipodal", case), (s + ":near_coincident", case)]
