"""C13 - ADS-B status, intent and quality indicators (TC 19/28/29/31) and the NUC/NIC/NAC/SIL look-ups."""
import itertools

from engine import loader
from engine.runner import Acc
from engine.util import call, chunks, other_bits, feq, vary_case
from spec import frames as F

LEVEL = "exploration"
RULE = ("each TC28/29/31/19 field swept over all its values (<= 2^11) x the fields it is gated by, under backgrounds "
        "{zeros, all other ME bits set, 0x55/0xAA pattern, seeded} and bg-1 (every other single bit) on a subset; "
        "look-ups: TC 5..22 x NICs x NICa x NICbc x version {None,0,1,2}; distinct = distinct (decoder, field values)")
ASSUMPTIONS = [
    "layouts from DO-260B 2.2.3.2.7.1 (TC29 subtype 1), DO-260A App. N (subtype 0), 2.2.3.2.7.2 (TC31), 2.2.3.2.7.8 (TC28)",
    "the polarity of the TC29 subtype-0 heading/track indicator (ME bit 37) is judged structurally only",
    "NUCp per type code is asserted exactly; NIC/NAC/SIL bounds only for monotonicity (higher category, tighter bound)",
    "label strings are the ones the decoder docstrings document",
]

pms = loader.load("P")
A = None


def adsb():
    return pms.adsb


ME_ONES = (1 << 56) - 1


def frame(tc, fields, bg, keep):
    """ME with `fields`; every ME bit not in `keep` (1-based positions) takes its value from bg."""
    me = F.me(tc, fields)
    mask = 0
    for p in keep:
        mask |= 1 << (56 - p)
    me = (me & mask) | (bg & ~mask & ME_ONES)
    k = bg % 7
    global _ADDR_I, _ADDRS
    if _ADDRS is None:
        from engine.util import address_alphabet
        _ADDRS = address_alphabet()
    _ADDR_I += 1        # the sender's address rotates through corners, source literals and the interiors of the ranges they delimit
    return F.es(me, _ADDRS[_ADDR_I % len(_ADDRS)], k % 8, 17 + k % 2, [0, 0xFFFFFF][k % 2])


_ADDRS = None
_ADDR_I = 0


def _unused():
    return None


# zeros, ones, alternating - and plausible reports: the ME fields of real messages (TC29 target state, TC28 emergency,
# TC19 velocity, TC11 position), so that every field is also swept inside a message whose other fields hold ordinary values
BGS = [0, ME_ONES, 0x55555555555555, 0xAAAAAAAAAAAAAA, 0xEA21485CBF3F8C, 0xE112B600000000, 0x994409940838175B >> 8, 0x58C901375147EF]


def keepset(*ranges):
    s = set(range(1, 6))
    for a, b in ranges:
        s |= set(range(a, b + 1))
    return s


# each spec: name, tc, subtype field, swept fields [(start,len)], keep ranges, function, expected(values)->value, compare
def _sel_alt(v):
    src, n = v
    return (None, "N/A") if n == 0 else ((n - 1) * 32, "MCP/FCU" if src == 0 else "FMS")


def _baro(v):
    return None if v[0] == 0 else 800 + (v[0] - 1) * 0.8


def _sel_hdg(v):
    st, sg, n = v
    return None if st == 0 else sg * 180.0 + n * 180.0 / 256


def _mode(bitidx):
    def f(v):
        st, bits = v[0], v[1]
        return None if st == 0 else bool((bits >> (6 - bitidx)) & 1)   # bits = ME 48..54 (7 bits)
    return f


def _tgt_alt(v):
    av, ref, n = v
    if av == 0:
        return (None, "N/A", "")
    return (-1000 + n * 100, {1: "MCP/FCU", 2: "Holding mode", 3: "FMS/RNAV"}[av], "FL" if ref == 0 else "MSL")


def _tgt_angle(v):
    av, n, ind = v
    if av == 0:
        return (None, "", "N/A")
    return (n, ("ind", ind), {1: "MCP/FCU", 2: "Autopilot mode", 3: "FMS/RNAV"}[av])


SPECS = [
    # TC29 subtype 1 (ADS-B version 2)
    ("selected_altitude", 29, 1, [(9, 1), (10, 11)], _sel_alt),
    ("baro_pressure_setting", 29, 1, [(21, 9)], _baro),
    ("selected_heading", 29, 1, [(30, 1), (31, 1), (32, 8)], _sel_hdg),
    ("autopilot", 29, 1, [(47, 1), (48, 7)], _mode(0)),
    ("vnav_mode", 29, 1, [(47, 1), (48, 7)], _mode(1)),
    ("altitude_hold_mode", 29, 1, [(47, 1), (48, 7)], _mode(2)),
    ("approach_mode", 29, 1, [(47, 1), (48, 7)], _mode(4)),
    ("lnav_mode", 29, 1, [(47, 1), (48, 7)], _mode(6)),
    ("tcas_operational", 29, 1, [(53, 1)], lambda v: bool(v[0])),
    # TC29 subtype 0 (ADS-B version 1)
    ("target_altitude", 29, 0, [(8, 2), (10, 1), (16, 10)], _tgt_alt),
    ("vertical_mode", 29, 0, [(14, 2)], lambda v: None if v[0] == 0 else v[0]),
    ("horizontal_mode", 29, 0, [(38, 2)], lambda v: None if v[0] == 0 else v[0]),
    ("target_angle", 29, 0, [(26, 2), (28, 9), (37, 1)], _tgt_angle),
    ("tcas_operational", 29, 0, [(52, 1)], lambda v: v[0] == 0),
    ("tcas_ra", 29, 0, [(53, 1)], lambda v: bool(v[0])),
    ("emergency_status", 29, 0, [(54, 3)], lambda v: v[0]),
    # TC28
    ("emergency_state", 28, None, [(6, 3), (9, 3)], lambda v: "RuntimeError" if v[0] == 2 else v[1]),
    ("is_emergency", 28, None, [(6, 3), (9, 3)], lambda v: "RuntimeError" if v[0] == 2 else (v[0] == 1 and v[1] != 0)),
    # TC31
    ("version", 31, None, [(41, 3)], lambda v: v[0]),
    ("nic_s", 31, None, [(44, 1)], lambda v: v[0]),
    ("nic_a_c", 31, None, [(44, 1), (20, 1)], lambda v: (v[0], v[1])),
    # TC 9-18
    ("nic_b", 11, None, [(8, 1)], lambda v: v[0]),
]
TARGET_IND_LABELS = {}


def eq(got, exp):
    if isinstance(exp, tuple) and isinstance(got, tuple) and len(exp) == len(got):
        return all(eq(g, e) for g, e in zip(got, exp))
    if isinstance(exp, tuple) and len(exp) == 2 and exp[0] == "ind":
        return got in ("Heading", "Track")
    if isinstance(exp, float) or isinstance(got, float):
        return got is not None and exp is not None and not isinstance(got, (str, tuple)) and feq(got, exp, 1e-12, 1e-9)
    if isinstance(exp, bool) or isinstance(got, bool):
        return got is exp
    return got == exp and type(got) is type(exp) if exp is not None else got is None


def judge_field(spec_i, values, msg):
    name, tc, st, flds, fexp = SPECS[spec_i]
    exp = fexp(values)
    r = call(getattr(pms.adsb, name), msg)
    tag = "%s%s" % (name, "" if st is None else ":subtype%d" % st)
    if exp == "RuntimeError":
        return None if r == ("exc", "RuntimeError") else tag + ":reserved_subtype_not_rejected"
    if r[0] != "ok":
        return tag + ":raises:" + r[1]
    if not eq(r[1], exp):
        if exp is None or (isinstance(exp, tuple) and exp[0] is None):
            return tag + ":no_data_code_not_None"
        return tag + ":wrong_value"
    return None


def w_field(arg):
    spec_i, combos, bgs, bg1 = arg
    name, tc, st, flds, fexp = SPECS[spec_i]
    acc = Acc()
    keep = keepset(*[(s, s + l - 1) for s, l in flds])
    if st is not None:
        keep |= {6, 7}
    for values in combos:
        fields = [(s, l, v) for (s, l), v in zip(flds, values)]
        if st is not None:
            fields.append((6, 2, st))
        for bg in bgs:
            msg = vary_case(frame(tc, fields, bg, keep), acc.n)
            acc.n += 1
            s = judge_field(spec_i, values, msg)
            if s:
                acc.bad(s, {"kind": "field", "spec": spec_i, "name": name, "values": list(values), "msg": msg})
        if bg1:
            base = int(frame(tc, fields, 0, keep), 16)
            for mask in other_bits(112, list(range(1, 6)) + [32 + p for p in keep]):
                msg = F.hexn(base ^ mask, 112)
                acc.n += 1
                s = judge_field(spec_i, values, msg)
                if s:
                    acc.bad(s + ":bg1", {"kind": "field", "spec": spec_i, "name": name, "values": list(values), "msg": msg})
        acc.out.add((name, st, tuple(values)))
    return acc.res()


def corners(w):
    return sorted({0, 1, 1 << (w - 1), (1 << w) - 1})


def w_joint(arg):
    """joint conditions: the judged decoder's own fields at every combination of their corner values (0, 1, top bit only,
    all ones) x every field of every OTHER decoder of the same message type at each of its corner values, the remaining
    ME bits all zero or all one: the judged answer must be what its own fields say."""
    spec_i = arg
    name, tc, st, flds, fexp = SPECS[spec_i]
    acc = Acc()
    others = []
    for j, (n2, tc2, st2, flds2, _) in enumerate(SPECS):
        if j != spec_i and tc2 == tc and st2 == st:
            for (s2, l2) in flds2:
                if all(not (s2 < s1 + l1 and s1 < s2 + l2) for s1, l1 in flds) and (s2, l2) not in others:
                    others.append((s2, l2))
    own = list(itertools.product(*[corners(l) for s_, l in flds]))
    for values in own:
        fields = [(s_, l, v) for (s_, l), v in zip(flds, values)]
        if st is not None:
            fields.append((6, 2, st))
        for (s2, l2) in others:
            for v2 in corners(l2):
                keep = keepset(*[(a, a + b - 1) for a, b in flds], (s2, s2 + l2 - 1))
                if st is not None:
                    keep |= {6, 7}
                for bg in (0, ME_ONES):
                    msg = vary_case(frame(tc, fields + [(s2, l2, v2)], bg, keep), acc.n)
                    acc.n += 1
                    s = judge_field(spec_i, values, msg)
                    if s:
                        acc.bad(s + ":joint_with_ME%d" % s2, {"kind": "field", "spec": spec_i, "name": name, "values": list(values), "msg": msg})
        acc.out.add(("joint", name, st, tuple(values)))
    return acc.res()


def w_prod(arg):
    """three-way and higher conditions: the judged decoder's own fields at corner combinations against the FULL product of
    every other field of the message over {0, mid-range} (thorough: {0, mid-range, all ones})."""
    spec_i, three = arg
    name, tc, st, flds, fexp = SPECS[spec_i]
    acc = Acc()
    others = []
    for j, (n2, tc2, st2, flds2, _) in enumerate(SPECS):
        if j != spec_i and tc2 == tc and st2 == st:
            for (s2, l2) in flds2:
                if all(not (s2 < s1 + l1 and s1 < s2 + l2) for s1, l1 in flds) and (s2, l2) not in others:
                    others.append((s2, l2))
    others = others[:12]

    def vals(l):
        top = (1 << l) - 1
        return [0, top // 3 + 1] + ([top] if three else [])
    own = list(itertools.product(*[corners(l) for s_, l in flds]))
    keep = keepset(*[(a, a + b - 1) for a, b in flds], *[(a, a + b - 1) for a, b in others])
    if st is not None:
        keep |= {6, 7}
    for combo in itertools.product(*[vals(l) for s_, l in others]):
        extra = [(s_, l, v) for (s_, l), v in zip(others, combo)]
        for values in own:
            fields = [(s_, l, v) for (s_, l), v in zip(flds, values)] + extra
            if st is not None:
                fields.append((6, 2, st))
            msg = vary_case(frame(tc, fields, 0, keep), acc.n)
            acc.n += 1
            s = judge_field(spec_i, values, msg)
            if s:
                acc.bad(s + ":in_the_product_of_the_other_fields", {"kind": "field", "spec": spec_i, "name": name, "values": list(values), "msg": msg})
    acc.out.add(("prod", name, st, len(others)))
    return acc.res()


# ------------------------------------------------------------------ accuracy / integrity categories
def judge_cat(kind, p):
    """category fields carried in TC19/29/31 and look-ups; returns signature or None."""
    if kind == "nac_p":
        tc, val, msg = p
        r = call(pms.adsb.nac_p, msg)
        if r[0] != "ok":
            return "nac_p:raises:" + r[1]
        if r[1][0] != val:
            return "nac_p:wrong_category_field:TC%d" % tc
        return None
    if kind == "sil":
        tc, val, sup, ver, msg = p
        r = call(pms.adsb.sil, msg, ver)
        if r[0] != "ok":
            return "sil:raises:" + r[1]
        base = r[1][2]
        want = {0: "hour", 1: "sample"}[sup] if ver == 2 else "unknown"
        if base != want:
            return "sil:supplement"
        return None
    if kind in ("nuc_v", "nac_v"):
        val, msg = p
        r = call(getattr(pms.adsb, kind), msg)
        if r[0] != "ok":
            return kind + ":raises:" + r[1]
        if r[1][0] != val:
            return kind + ":wrong_category_field"
        return None
    raise ValueError(kind)


def tighter_or_equal(a, b):
    """bound a is at least as tight as b (None = unbounded)."""
    if b is None:
        return True
    if a is None:
        return False
    return a <= b


def w_cats(_):
    acc = Acc()

    def do(kind, p):
        acc.n += 1
        s = judge_cat(kind, p)
        if s:
            acc.bad(s, {"kind": "cat", "sub": kind, "p": list(p)})
    nacp_rows, sil_rows = {}, {}
    for bg in BGS:
        for v in range(16):
            m29 = frame(29, [(6, 2, 1), (40, 4, v)], bg, keepset((6, 7), (40, 43)))
            m31 = frame(31, [(45, 4, v)], bg, keepset((45, 48)))
            do("nac_p", (29, v, m29))
            do("nac_p", (31, v, m31))
            for m in (m29, m31):
                r = call(pms.adsb.nac_p, m)
                if r[0] == "ok":
                    nacp_rows[v] = r[1][1:]
            acc.out.add(("nacp", v))
        for v in range(4):
            for sup in (0, 1):
                for ver in (None, 0, 1, 2):
                    m29 = frame(29, [(6, 2, 1), (45, 2, v), (8, 1, sup)], bg, keepset((6, 8), (45, 46)))
                    m31 = frame(31, [(51, 2, v), (55, 1, sup)], bg, keepset((51, 52), (55, 55)))
                    do("sil", (29, v, sup, ver, m29))
                    do("sil", (31, v, sup, ver, m31))
                    for m in (m29, m31):
                        r = call(pms.adsb.sil, m, ver)
                        if r[0] == "ok":
                            sil_rows.setdefault(v, set()).add(r[1][:2])
            acc.out.add(("sil", v))
        for v in range(8):
            m19 = frame(19, [(6, 3, 1), (11, 3, v), (15, 10, 5), (26, 10, 7)], bg, keepset((6, 8), (11, 13)))
            do("nuc_v", (v, m19))
            do("nac_v", (v, m19))
            acc.out.add(("nacv", v))
    # monotone scales: a higher category never has a looser bound
    def mono(rows, name):
        ks = sorted(rows)
        for a, b in itertools.combinations(ks, 2):      # a < b : b is the higher category
            for x, y in zip(rows[b], rows[a]):
                if not tighter_or_equal(x, y) and x is not None:
                    acc.bad("%s:higher_category_looser_bound" % name, {"kind": "cat", "sub": "mono", "p": [name, a, b]})
        acc.n += len(ks)
    mono(nacp_rows, "nac_p")
    sil1 = {k: sorted(v)[0] for k, v in sil_rows.items() if len(v) == 1}
    if len(sil1) != len(sil_rows):
        acc.bad("sil:depends_on_other_bits", {"kind": "cat", "sub": "mono", "p": ["sil", 0, 0]})
    mono(sil1, "sil")
    for fn in ("nuc_v", "nac_v"):
        rows = {}
        for v in range(8):
            r = call(getattr(pms.adsb, fn), frame(19, [(6, 3, 1), (11, 3, v), (15, 10, 5), (26, 10, 7)], 0, keepset((6, 8), (11, 13))))
            if r[0] == "ok":
                rows[v] = r[1][1:]
        mono({k: v for k, v in rows.items() if k <= 4}, fn)
    return acc.res()


NUCP_BY_TC = {5: 9, 6: 8, 7: 7, 8: 6, 9: 9, 10: 8, 11: 7, 12: 6, 13: 5, 14: 4, 15: 3, 16: 2, 17: 1, 18: 0, 20: 9, 21: 8, 22: 0}


# NIC numbers for the (type code, supplement) combinations the standards define (DO-260B Table 2-70/N-4, DO-260A)
NIC_V2 = {}
for _tc, _n in {5: 11, 6: 10, 9: 11, 10: 10, 12: 7, 14: 5, 15: 4, 17: 1, 18: 0, 20: 11, 21: 10, 22: 0}.items():
    NIC_V2[(_tc, 0, 0)] = _n
NIC_V2.update({(7, 1, 0): 9, (7, 0, 0): 8, (8, 1, 1): 7, (8, 1, 0): 6, (8, 0, 1): 6, (8, 0, 0): 0,
               (11, 1, 1): 9, (11, 0, 0): 8, (13, 0, 0): 6, (13, 0, 1): 6, (13, 1, 1): 6, (16, 1, 1): 3, (16, 0, 0): 2})
for _tc in (20, 21, 22):          # supplements do not apply to GNSS-height type codes
    for _a in (0, 1):
        for _b in (0, 1):
            NIC_V2[(_tc, _a, _b)] = NIC_V2[(_tc, 0, 0)]
NIC_V1 = {}
for _tc, _n in {5: 11, 6: 10, 8: 0, 9: 11, 10: 10, 12: 7, 13: 6, 14: 5, 15: 4, 17: 1, 18: 0, 20: 11, 21: 10, 22: 0}.items():
    NIC_V1[(_tc, 0)] = _n
NIC_V1.update({(11, 1): 9, (11, 0): 8, (16, 1): 3, (16, 0): 2})


def judge_lookup(tc, bg):
    """nuc_p, nic_v1, nic_v2 over all supplements for one TC; returns list of signatures."""
    out = []
    msg = frame(tc, [], bg, keepset())
    r = call(pms.adsb.nuc_p, msg)
    if r[0] != "ok":
        out.append("nuc_p:raises:%s" % r[1])
    elif r[1][0] != NUCP_BY_TC[tc]:
        out.append("nuc_p:wrong_NUCp_for_type_code")
    for nics in (0, 1):
        r = call(pms.adsb.nic_v1, msg, nics)
        if r[0] != "ok":
            out.append("nic_v1:raises:%s" % r[1])
        elif (tc, nics) in NIC_V1 and r[1][0] != NIC_V1[(tc, nics)]:
            out.append("nic_v1:wrong_NIC_for_type_code_and_supplement")
    for a in (0, 1):
        for b in (0, 1):
            r = call(pms.adsb.nic_v2, msg, a, b)
            if r[0] != "ok":
                out.append("nic_v2:raises:%s" % r[1])
            elif (tc, a, b) in NIC_V2 and (r[1][0] != NIC_V2[(tc, a, b)] or (r[1][1] is None) != (NIC_V2[(tc, a, b)] == 0)):
                out.append("nic_v2:wrong_NIC_for_type_code_and_supplements")
    return out


def _lookup_sweep(order):
    out = {}
    for tc in order:
        msg = frame(tc, [], 0, keepset())
        out[(tc, "p")] = repr(call(pms.adsb.nuc_p, msg))
        for nics in (0, 1):
            out[(tc, "1", nics)] = repr(call(pms.adsb.nic_v1, msg, nics))
        for a in (0, 1):
            for b in (0, 1):
                out[(tc, "2", a, b)] = repr(call(pms.adsb.nic_v2, msg, a, b))
    return out


def w_lookups(_):
    acc = Acc()
    rows_p, rows_1, rows_2 = {}, {}, {}
    # this task runs in a fresh child process: the first sweep (descending TC) sees the pristine tables
    first = _lookup_sweep(sorted(NUCP_BY_TC, reverse=True))
    gn0 = {}
    for tc in (22, 21, 20):
        r = call(pms.adsb.nuc_p, frame(tc, [], 0, keepset()))
        if r[0] == "ok":
            gn0[r[1][0]] = r[1][3]
    for lo, hi in itertools.combinations(sorted(gn0), 2):
        acc.n += 1
        if not tighter_or_equal(gn0[hi], gn0[lo]):
            acc.bad("nuc_p:higher_category_looser_bound", {"kind": "lookup", "tc": -1, "bg": 0, "cats": [lo, hi], "scale": "RCv"})
    for tc in NUCP_BY_TC:
        for bg in BGS:
            acc.n += 7
            for s in judge_lookup(tc, bg):
                acc.bad(s, {"kind": "lookup", "tc": tc, "bg": bg})
        msg = frame(tc, [], 0, keepset())
        r = call(pms.adsb.nuc_p, msg)
        if r[0] == "ok":
            rows_p.setdefault(r[1][0], set()).add((r[1][1], r[1][2]))
        for nics in (0, 1):
            r = call(pms.adsb.nic_v1, msg, nics)
            if r[0] == "ok" and r[1][0] is not None:
                rows_1.setdefault(r[1][0], set()).add(r[1][1])
        for a in (0, 1):
            for b in (0, 1):
                r = call(pms.adsb.nic_v2, msg, a, b)
                if r[0] == "ok" and r[1][0] is not None:
                    rows_2.setdefault(r[1][0], set()).add(r[1][1])
        acc.out.add(("lookup", tc))
    # the look-ups are pure tables: after everything above has run, ascending and descending sweeps must still give the
    # answers of the very first sweep
    for order in (sorted(NUCP_BY_TC), sorted(NUCP_BY_TC, reverse=True)):
        again = _lookup_sweep(order)
        acc.n += len(again)
        for k_ in first:
            if first[k_] != again[k_]:
                acc.bad("%s:result_depends_on_previous_calls" % {"p": "nuc_p", "1": "nic_v1", "2": "nic_v2"}[k_[1]],
                        {"kind": "lookup", "tc": -1, "bg": 0, "key": list(k_), "first": first[k_], "later": again[k_]})
                break
    # order: worst bound of category k+1 <= best bound of category k
    for name, rows in (("nuc_p", {k: {x[0] for x in v} for k, v in rows_p.items()}), ("nic_v1", rows_1), ("nic_v2", rows_2)):
        ks = sorted(rows)
        for lo, hi in itertools.combinations(ks, 2):
            hi_b = [x for x in rows[hi] if x is not None]
            lo_b = [x for x in rows[lo] if x is not None]
            if hi_b and lo_b and max(hi_b) > min(lo_b):
                acc.bad("%s:higher_category_looser_bound" % name, {"kind": "lookup", "tc": -1, "bg": 0, "cats": [lo, hi]})
            if lo != 0 and not hi_b and lo_b:
                acc.bad("%s:higher_category_unbounded" % name, {"kind": "lookup", "tc": -1, "bg": 0, "cats": [lo, hi]})
    return acc.res()


def w_tc28(_):
    """TC28: subtype(8) x emergency state(8) x identity-code alphabet (0000, 7500, 7600, 7700, 7777, 1234, each with both X
    values) x reserved tail {0, ones}: emergency_state / is_emergency depend on subtype and state only."""
    from spec import identity as ID
    acc = Acc()
    sq = [ID.encode(a, b, c, d, x) for (a, b, c, d) in ((0, 0, 0, 0), (7, 5, 0, 0), (7, 6, 0, 0), (7, 7, 0, 0), (7, 7, 7, 7), (1, 2, 3, 4)) for x in (0, 1)]
    i_state = [i for i, sp in enumerate(SPECS) if sp[0] == "emergency_state"][0]
    i_emerg = [i for i, sp in enumerate(SPECS) if sp[0] == "is_emergency"][0]
    for st in range(8):
        for state in range(8):
            for code in sq:
                for tail in (0, 0xFFFFFFFF):
                    me = F.me(28, [(6, 3, st), (9, 3, state), (12, 13, code)]) | tail
                    msg = F.es(me, 0x4840D6, 5, 17)
                    for si in (i_state, i_emerg):
                        acc.n += 1
                        s = judge_field(si, (st, state), msg)
                        if s:
                            acc.bad(s + ":depends_on_identity_code", {"kind": "field", "spec": si, "name": SPECS[si][0], "values": [st, state], "msg": msg})
            acc.out.add(("tc28", st, state))
    return acc.res()


def w_any(t):
    if t[0] == "e":
        return w_tc28(None)
    return {"f": w_field, "c": w_cats, "l": w_lookups, "j": w_joint, "x": w_prod}[t[0]](t[1])


def run(ctx):
    import random
    rng = random.Random(ctx.seed)
    bgs = BGS + [rng.getrandbits(56) for _ in range(2)]
    tasks = [("c", None), ("l", None), ("e", None)] + [("j", i) for i in range(len(SPECS))] + [("x", (i, ctx.thorough)) for i in range(len(SPECS))]
    for i, (name, tc, st, flds, fexp) in enumerate(SPECS):
        combos = list(itertools.product(*[range(1 << l) for s, l in flds]))
        sub = set(combos[:2] + combos[-2:] + combos[len(combos) // 2:len(combos) // 2 + 2])
        for c in chunks(combos, 256):
            tasks.append(("f", (i, c, bgs, False)))
        tasks.append(("f", (i, sorted(sub) if not ctx.thorough else combos[::max(1, len(combos) // 64)], bgs[:1], True)))
    ctx.pmap(w_any, tasks, ambient=True)
    ctx.cov["exhaustive"] = True
    ctx.samples.append({"selected_heading": frame(29, [(6, 2, 1), (30, 1, 1), (31, 1, 1), (32, 8, 64)], 0, keepset()), "expected_deg": 225.0})


def replay(case):
    k = case["kind"]
    if k == "field":
        s = judge_field(case["spec"], tuple(case["values"]), case["msg"])
        return ([(s, case), (s + ":bg1", case), (s + ":depends_on_identity_code", case), (s + ":in_the_product_of_the_other_fields", case)] +
                [(s + ":joint_with_ME%d" % b_, case) for b_ in range(1, 57)]) if s else []
    if k == "cat":
        if case["sub"] == "mono":
            return [(s, c) for s, c in w_cats(None)["viols"]]
        s = judge_cat(case["sub"], tuple(case["p"]))
        return [(s, case)] if s else []
    if case["tc"] == -1:
        return [(s, c) for s, c in w_lookups(None)["viols"]]
    return [(s, case) for s in judge_lookup(case["tc"], case["bg"])]
