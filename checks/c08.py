"""C08 - identity code, FS/DR/UM/CA/interrogator code; DF guards of the reply-specific decoders."""
import os

from engine import loader
from engine.runner import Acc
from engine.util import call, chunks, other_bits, vary_case
from spec import crc as R
from spec import frames as F
from spec import identity as I

LEVEL = "exploration"
RULE = ("all 8192 identity patterns (4096 squawks x X bit) through squawk(), DF5, DF21 and TC28 carriers with "
        "zeros/ones/pattern/seeded backgrounds and bg-1 on a subset; full FS(8)xDR(32)xIIS(16)xIDS(4) product on DF4/5 "
        "(+DF20/21 via common.fs/dr/um); CA x every other bit on DF11; every remainder 0..127 and walking high bits as "
        "the DF11 PI overlay; DF 0..31 x both lengths for the RuntimeError guards; distinct = distinct (decoder, field "
        "value) pairs")
ASSUMPTIONS = ["re-entrancy: a decoder call suspended at a source-line boundary while another call runs to completion (one preemption, engine/interleave.py) must still give its isolated answer - the properties are read as covering calls made from several threads",
               "interrogator remainder 16 (CL=1, IC=0; SI 0 is not an assignable code) is only required not to be "
               "labelled II", "FS/DR/UM text labels are not judged, only the numeric fields"]

CONFIGS = [c for c in os.environ.get("VERIF_CONFIGS", "P,C").split(",") if c]
PMS = {}


def pm(cfg):
    if cfg not in PMS:
        PMS[cfg] = loader.load(cfg)
    return PMS[cfg]


TABLE = dict(I.all_codes())


_BG14, _BG56, _BG24 = F.backgrounds(14, 11, 3), F.backgrounds(56, 12, 3), F.backgrounds(24, 13, 3)


def id_frame(carrier, code, bg):
    """bg: int selecting a background variant 0.."""
    h14, mb, ad = _BG14[bg], _BG56[bg], _BG24[bg]
    if carrier == "DF5":
        return F.short_ap(5, (h14 << 13) | code, ad)
    if carrier == "DF21":
        return F.long_ap(21, (h14 << 13) | code, mb, ad)
    if carrier == "TC28":
        # ME: TC(5)=28 subtype(3) emergency(3) squawk(13, ME bits 12-24) reserved(32)
        st = [1, 1, 0, 3, 1, 7, 5][bg]
        me = F.me(28, [(6, 3, st), (9, 3, bg % 8), (12, 13, code)], rest=mb & 0xFFFFFFFF)
        return F.es(me, ad, bg % 8, 17 + bg % 2, ad ^ 0x5A5A5A)
    raise ValueError(carrier)


def judge(cfg, kind, p):
    """None or signature."""
    pms = pm(cfg)
    tag = "" if cfg == "P" else "[C]"
    if kind == "squawk":
        code = p[0]
        r = call(pms.common.squawk, "{:013b}".format(code))
        return None if r == ("ok", TABLE[code]) else tag + "common.squawk" + (":raises" if r[0] == "exc" else "")
    if kind == "id":
        carrier, code, msg = p
        fs = {"DF5": [pms.common.idcode, pms.surv.identity], "DF21": [pms.common.idcode],
              "TC28": [pms.adsb.emergency_squawk]}[carrier]
        for f in fs:
            r = call(f, msg)
            if r != ("ok", TABLE[code]):
                return tag + "%s:%s%s" % (f.__name__, carrier, ":raises" if r[0] == "exc" else "")
        return None
    if kind == "fsdrum":
        df, fs_, dr_, iis, ids, msg = p
        fns = [("common.fs", pms.common.fs, fs_, 0), ("common.dr", pms.common.dr, dr_, 0)] if hasattr(pms.common, "fs") else []
        if df in (4, 5):
            fns += [("surv.fs", pms.surv.fs, fs_, 0), ("surv.dr", pms.surv.dr, dr_, 0)]
        for name, f, exp, _ in fns:
            r = call(f, msg)
            if r[0] != "ok" or r[1][0] != exp:
                return tag + name
        ums = [("common.um", pms.common.um)] if hasattr(pms.common, "um") else []
        if df in (4, 5):
            ums.append(("surv.um", pms.surv.um))
        for name, f in ums:
            r = call(f, msg)
            if r[0] != "ok" or tuple(r[1][:2]) != (iis, ids):
                return tag + name
        return None
    if kind == "ca":
        ca, msg = p
        r = call(pms.allcall.capability, msg)
        return None if r[0] == "ok" and r[1][0] == ca else tag + "allcall.capability"
    if kind == "ic":
        rem, msg = p
        r = call(pms.allcall.interrogator, msg)
        if r[0] != "ok":
            return tag + "allcall.interrogator:raises"
        v = r[1]
        if rem < 16:
            ok = v == "II%d" % rem
        elif rem == 16:
            ok = not str(v).startswith("II")
        elif rem <= 79:
            ok = v == "SI%d" % (rem - 16)
        else:
            ok = v == "corrupt IC"
        return None if ok else tag + "allcall.interrogator:" + ("II" if rem < 16 else "SI" if rem <= 79 else "corrupt")
    if kind == "guard":
        name, msg = p
        mod, fn = name.split(".")
        f = getattr(getattr(pms, mod), fn)
        df = min(int(msg[:2], 16) >> 3, 24)
        allowed = {"surv.fs": (4, 5), "surv.dr": (4, 5), "surv.um": (4, 5), "surv.altitude": (4,), "surv.identity": (5,),
                   "allcall.icao": (11,), "allcall.interrogator": (11,), "allcall.capability": (11,),
                   "common.idcode": (5, 21), "common.altcode": (0, 4, 16, 20)}[name]
        r = call(f, msg)
        if df in allowed:
            return None if r[0] == "ok" else tag + "guard:%s:rejects_own_format" % name
        return None if r == ("exc", "RuntimeError") else tag + "guard:%s:accepts_or_wrong_exception" % name
    raise ValueError(kind)


def w_ids(arg):
    cfg, codes, bg1 = arg
    acc = Acc()

    def do(kind, p):
        acc.n += 1
        if kind == "id":
            p = (p[0], p[1], vary_case(p[2], acc.n))
        s = judge(cfg, kind, p)
        if s:
            acc.bad(s, {"cfg": cfg, "kind": kind, "p": list(p)})
    nbg = 7 if cfg == "P" else 2
    subset = {0, 8191, 0x40} | {1 << i for i in range(13)}
    for code in codes:
        do("squawk", (code,))
        acc.out.add((cfg, "id", TABLE[code], code >> 6 & 1))
        for carrier in ("DF5", "DF21", "TC28"):
            for bg in range(nbg):
                do("id", (carrier, code, id_frame(carrier, code, bg)))
            if (bg1 or code in subset) and cfg == "P":
                base = int(id_frame(carrier, code, 0), 16)
                n = 56 if carrier == "DF5" else 112
                excl = list(range(1, 6)) + (list(range(20, 33)) if carrier != "TC28" else list(range(33, 41)) + list(range(44, 57)))
                for mask in other_bits(n, excl):
                    do("id", (carrier, code, F.hexn(base ^ mask, n)))
    return acc.res()


def w_fields(arg):
    cfg, df, fs_list, seed = arg
    acc = Acc()
    bgs = [(0, 0, 0), (0x1FFF, (1 << 56) - 1, 0xFFFFFF)] + [(a, b, c) for a, b, c in zip(F.backgrounds(13, seed)[4:], F.backgrounds(56, seed)[4:], F.backgrounds(24, seed)[4:])]
    if cfg != "P":
        bgs = bgs[:1]
    for fs_ in fs_list:
        for dr_ in range(32):
            for iis in range(16):
                for ids in range(4):
                    rest = (fs_ << 24) | (dr_ << 19) | (iis << 15) | (ids << 13)
                    for ac, mb, ad in bgs:
                        msg = F.short_ap(df, rest | ac, ad) if df in (4, 5) else F.long_ap(df, rest | ac, mb, ad)
                        acc.n += 1
                        s = judge(cfg, "fsdrum", (df, fs_, dr_, iis, ids, msg))
                        if s:
                            acc.bad(s, {"cfg": cfg, "kind": "fsdrum", "p": [df, fs_, dr_, iis, ids, msg]})
                    acc.out.add((cfg, "fsdrum", fs_, dr_, iis, ids))
    return acc.res()


def w_misc(arg):
    cfg, seed = arg
    acc = Acc()

    def do(kind, p):
        acc.n += 1
        s = judge(cfg, kind, p)
        if s:
            acc.bad(s, {"cfg": cfg, "kind": kind, "p": list(p)})
    # re-entrancy (preemption bound 1, engine.interleave): each reply decoder suspended before every one of its source
    # lines while the same decoder - or one of its siblings - decodes another reply
    from engine.util import interleaved_ok
    pms_ = pm(cfg)
    aa_ = 0x4840D6
    d4 = [(F.short_ap(4, (1 << 24) | (5 << 19) | (6 << 15) | (1 << 13) | 0x1838, aa_),), (F.short_ap(5, (3 << 24) | (17 << 19) | (9 << 15) | (2 << 13) | 0x0AAA, aa_),),
          (F.short_ap(4, (2 << 24) | (30 << 19) | (15 << 15) | (3 << 13) | 0x0C10, aa_),)]
    d5 = [(F.short_ap(5, 0x0AAA, aa_),), (F.short_ap(5, 0x1555, aa_),), (F.long_ap(21, 0x0E38, 0, aa_),)]
    d11 = [(F.df11(aa_, 5, 0),), (F.df11(aa_, 2, 37),), (F.df11(0xABCDEF, 7, 64),)]
    for fn, argsets, sibs in () if cfg != "P" else ((pms_.surv.fs, d4, [(pms_.surv.dr, d4[1]), (pms_.surv.um, d4[2])]), (pms_.surv.dr, d4, [(pms_.surv.fs, d4[1])]),
                             (pms_.surv.um, d4, [(pms_.surv.dr, d4[2])]), (pms_.surv.identity, d5[:2], [(pms_.common.idcode, d5[2])]),
                             (pms_.common.idcode, d5, []), (pms_.allcall.interrogator, d11, [(pms_.allcall.capability, d11[1])]),
                             (pms_.allcall.capability, d11, [(pms_.allcall.icao, d11[2])])):
        bad_, nsch = interleaved_ok(fn, argsets, sibs)
        acc.n += nsch
        acc.c["interleaved_schedules"] += nsch
        for a_, nm_, k_ in bad_:
            label = "%s.%s" % (fn.__module__.split(".")[-1], getattr(fn, "__wrapped__", fn).__name__)
            acc.bad(("" if cfg == "P" else "[C]") + "%s:answer_changes_when_another_call_runs_in_between" % label,
                    {"cfg": cfg, "kind": "interleave", "p": [label, a_[0], nm_, k_]})
    addrs = [0, 0xFFFFFF, 0x406B90, 0xABCDEF] + [1 << i for i in range(24)]
    # CA x bg-1 on DF11 (every bit of AA and PI)
    for ca in range(8):
        for aa in addrs[:4] if cfg != "P" else addrs:
            do("ca", (ca, F.df11(aa, ca, 0)))
        base = int(F.df11(0x406B90, ca, 0), 16)
        for mask in other_bits(56, range(1, 9)):
            do("ca", (ca, F.hexn(base ^ mask, 56)))
        acc.out.add((cfg, "ca", ca))
    # interrogator code: remainder r overlaid on the parity
    rems = list(range(128)) + [1 << i for i in range(7, 24)] + [(1 << i) | 5 for i in range(7, 24)] + [0xFFFFFF]
    for r in rems:
        for aa in (addrs[:3] if cfg != "P" else addrs[:8]):
            for ca in (0, 5, 7):
                do("ic", (r, F.df11(aa, ca, r)))
        acc.out.add((cfg, "ic", r))
    # the wire field itself at its special values: for every capability and every legal code (and a few corrupt ones) the
    # one address for which the transmitted PI field reads 000000 / FFFFFF / 000001 although the code is overlaid
    for r in list(range(80)) + [80, 127, 0x800000]:
        for ca in ((0, 5, 7) if cfg != "P" else range(8)):
            for wire in (0x000000, 0xFFFFFF, 0x000001):
                aa = R.solve_low24((11 << 3) | ca, 8, wire ^ r)
                m = F.df11(aa, ca, r)
                assert int(m[-6:], 16) == wire
                do("ic", (r, m))
                do("ca", (ca, m))
    # TC28 identity code under every subtype (except 2: ACAS RA) and emergency state
    for code in (0, 0x40, I.encode(7, 5, 0, 0), I.encode(7, 6, 0, 0), I.encode(7, 7, 0, 0), 8191, I.encode(1, 2, 3, 4, 1)):
        for st in range(8):
            for state in range(8):
                me = F.me(28, [(6, 3, st), (9, 3, state), (12, 13, code)])
                do("id", ("TC28", code, F.es(me, 0x4840D6, 5, 17)))
    # DF guards, both lengths, three payloads
    names = ["surv.fs", "surv.dr", "surv.um", "surv.altitude", "surv.identity", "allcall.icao",
             "allcall.interrogator", "allcall.capability", "common.idcode", "common.altcode"]
    for df in range(32):
        for n in (56, 112):
            for rest in (0, (1 << (n - 5)) - 1, int("5A" * 14, 16) & ((1 << (n - 5)) - 1)):
                msg = F.raw(n, df, rest)
                if n == 56 and df in (0, 4, 5, 11, 16, 20, 21) and df in (16, 20, 21):
                    continue   # long formats are not built as short frames here (C14 covers malformed lengths)
                if n == 112 and df in (0, 4, 5, 11):
                    continue
                for nm in names:
                    do("guard", (nm, msg))
    return acc.res()


def run(ctx):
    cfgs = list(CONFIGS)
    if "C" in cfgs:
        try:
            pm("C")
        except ImportError:
            cfgs.remove("C")
            ctx.notes.append("configuration C (pyx model) not available in this build of the framework")
    codes = sorted(TABLE)
    tasks = []
    for cfg in cfgs:
        pm(cfg)
        tasks += [("ids", (cfg, c, ctx.thorough)) for c in chunks(codes, 64 if cfg == "P" else 32)]
        for df in (4, 5, 20, 21):
            tasks += [("fields", (cfg, df, [f], ctx.seed)) for f in range(8)]
        tasks.append(("misc", (cfg, ctx.seed)))
        tasks.append(("seqx", (cfg, 2)))
        if cfg == "P":
            tasks.append(("periodic", cfg))
    if ctx.thorough:
        tasks += [("pi24", (lo, lo + (1 << 18))) for lo in range(0, 1 << 24, 1 << 18)]
    isP = [t for t in tasks if t[0] != "pi24" and (t[1] == "P" or (isinstance(t[1], tuple) and t[1][0] == "P"))]
    ctx.pmap(w_any, isP, ambient=True)        # the ambient repeat in configuration P only (the pyx model is slow)
    ctx.pmap(w_any, [t for t in tasks if t not in isP])
    ctx.cov["exhaustive"] = True
    ctx.cov["configurations"] = cfgs
    ctx.samples += [{"kind": "id", "carrier": "DF21", "squawk": TABLE[0x0AAA], "msg": id_frame("DF21", 0x0AAA, 4)},
                    {"kind": "ic", "rem": 37, "msg": F.df11(0x406B90, 5, 37)}]


def seq_thunks(cfg):
    """same address with different CA / interrogator code; identity codes 0000, 7777 and X-bit variants; FS/DR/UM frames."""
    th = []
    for ca, ic in ((5, 0), (4, 5), (7, 37), (5, 79), (0, 90)):
        msg = F.df11(0x3C6DD0, ca, ic)
        th.append(("DF11_ca%d_ic%d" % (ca, ic), (lambda m=msg, r=ic: judge(cfg, "ic", (r, m)))))
        th.append(("DF11_capability_ca%d" % ca, (lambda m=msg, c=ca: judge(cfg, "ca", (c, m)))))
    for code in (0, 0x40, 8191, 0x0AAA, 0x1555):
        for carrier in ("DF5", "TC28"):
            msg = id_frame(carrier, code, 1)
            th.append(("%s_id%04X" % (carrier, code), (lambda c=carrier, k=code, m=msg: judge(cfg, "id", (c, k, m)))))
    return th


def w_seqx(arg):
    from engine.util import explore_sequences
    cfg, depth = arg
    acc = Acc()
    explore_sequences(acc, seq_thunks(cfg), depth, cfg)
    return acc.res()


def w_periodic(cfg):
    """relations between ALL fields at once: frames that are one octet repeated, or two octets repeated (what a stuck bit
    pattern or an unmodulated carrier looks like - and a perfectly legal reply): for DF4/5/20/21 the fields, for DF5/21 the
    identity code, for DF11 the capability, each read off the frame's own bits."""
    acc = Acc()
    firsts = list(range(0x20, 0x30)) + list(range(0xA0, 0xB0)) + list(range(0x58, 0x60))
    k = 0
    for b0 in firsts:
        df = b0 >> 3
        for b1 in [b0] + list(range(256)):
            for n in ((56,) if df in (4, 5, 11) else (112,)):
                k += 1
                v = int(("%02X%02X" % (b0, b1)) * (n // 16) + (("%02X" % b0) if (n // 8) % 2 else ""), 16)
                msg = vary_case(F.hexn(v, n), k)
                head = v >> (n - 32)
                fs_, dr_, iis, ids, code = (head >> 24) & 7, (head >> 19) & 31, (head >> 15) & 15, (head >> 13) & 3, head & 0x1FFF
                acc.n += 1
                if df in (4, 5, 20, 21):
                    s = judge(cfg, "fsdrum", (df, fs_, dr_, iis, ids, msg))
                    if not s and df in (5, 21):
                        s = judge(cfg, "id", ("DF%d" % df, code, msg))
                else:
                    s = judge(cfg, "ca", ((head >> 24) & 7, msg))
                if s:
                    acc.bad(s + ":periodic_frame", {"cfg": cfg, "kind": "periodic", "p": [msg]})
        acc.out.add((cfg, "periodic", b0))
    return acc.res()


def w_pi24(arg):
    """thorough: allcall.interrogator / capability / icao on a DF11 reply for EVERY value of the 24-bit overlay (the
    implementation run on the whole field, so that a value it singles out through something it computes is met)."""
    lo, hi = arg
    acc = Acc()
    hdr = ((11 << 3 | 5) << 24) | 0x4840D6
    p0 = R.parity(hdr, 32)
    for r in range(lo, hi):
        m = "%08X%06X" % (hdr, p0 ^ r)
        acc.n += 1
        s = judge("P", "ic", (r, m))
        if s:
            acc.bad(s + ":overlay_sweep", {"cfg": "P", "kind": "ic", "p": [r, m]})
    acc.out.add(("pi24", lo))
    return acc.res()


def w_any(t):
    if t[0] == "seqx":
        return w_seqx(t[1])
    if t[0] == "pi24":
        return w_pi24(t[1])
    if t[0] == "periodic":
        return w_periodic(t[1])
    return {"ids": w_ids, "fields": w_fields, "misc": w_misc}[t[0]](t[1])


def replay(case):
    if case["kind"] == "seqx":
        from engine.util import replay_sequence
        s = replay_sequence(seq_thunks(case["tag"]), case["sequence"])
        return [(s, case)] if s else []
    if case["kind"] == "interleave":
        return [(s_, c_) for s_, c_ in w_misc((case["cfg"], 0))["viols"] if c_.get("kind") == "interleave" and c_["p"][0] == case["p"][0]]
    if case["kind"] == "periodic":
        return [(s_, c_) for s_, c_ in w_periodic(case["cfg"])["viols"] if c_["p"] == case["p"]]
    s = judge(case["cfg"], case["kind"], tuple(case["p"]))
    return [(s, case), (s + ":overlay_sweep", case)] if s else []
