"""C06 - cprNL equals the DO-260B NL function (Python implementation and the pyx model)."""
import math
import os

import numpy as np

from engine import loader
from engine.runner import Acc
from engine.util import call, chunks
from spec import cpr as C

LEVEL = "exploration"
RULE = ("G1: 0.0005-degree grid over [-90,90]; N1: every float within +-64 ulp and +-10^-e (e=3..12) of each of the 58 "
        "transition latitudes (both signs), 0, +-87, +-90; thorough N2: every latitude a CPR decoder can construct "
        "(d*(j+yz/2^17) for the four zone sizes, all zone indices, all 2^17 yz); distinct = distinct latitudes; "
        "non-trivial = latitude within 1e-3 deg of a breakpoint")
ASSUMPTIONS = ["re-entrancy: a decoder call suspended at a source-line boundary while another call runs to completion (one preemption, engine/interleave.py) must still give its isolated answer - the properties are read as covering calls made from several threads",
               "transition latitudes from the closed form; within 1e-9 deg of a transition either neighbouring NL is "
               "accepted, as the property allows", "between enumerated points nothing is claimed (real-valued domain)"]

CONFIGS = [c for c in os.environ.get("VERIF_CONFIGS", "P,C").split(",") if c]
PMS = {}


def pm(cfg):
    if cfg not in PMS:
        PMS[cfg] = loader.load(cfg)
    return PMS[cfg]


def sig_for(lat, got, cfg):
    a = abs(lat)
    tag = "" if cfg == "P" else "[C]"
    if isinstance(got, str):
        return tag + "cprNL:raises:" + got
    if 87.0 < a <= 87.001:
        return tag + "cprNL:just_above_87_returns_%s" % got
    return tag + "cprNL:band_NL%d_got_%s" % (C.NL(a), got)


def judge(cfg, lat):
    f = pm(cfg).common.cprNL
    r = call(f, lat)
    if r[0] != "ok":
        return sig_for(lat, r[1], cfg)
    if r[1] not in C.NL_set(lat):
        return sig_for(lat, r[1], cfg)
    tag = "" if cfg == "P" else "[C]"
    if call(f, lat) != r:
        return tag + "cprNL:repeated_call_gives_another_value"       # decoders call it back to back with one latitude
    r2 = call(f, -lat)
    if r2 != r:
        return tag + "cprNL:not_even"
    if call(f, -lat) != r2:
        return tag + "cprNL:repeated_call_gives_another_value"
    return None


def w_forms(cfg):
    """argument forms: the same latitude as Python int, float, numpy float64 / float32 / int64 and negative zero must
    give the value the reference assigns to that number (a float32 is judged at the double it converts to)."""
    acc = Acc()
    f = pm(cfg).common.cprNL
    vals = []
    for k in range(-90, 91):
        vals += [k, float(k), np.float64(k), np.int64(k), np.float32(k), np.float32(k + 0.3) if k < 90 else np.float32(89.7)]
    for k in range(-90, 91):        # narrow integer types (the arithmetic must not be carried out in their precision)
        vals += [np.int8(k), np.int16(k), np.int32(k)] + ([np.uint8(k), np.uint16(k)] if k >= 0 else [])
    for nl in range(2, 60):         # the float32 numbers next to every transition latitude, judged at the double they convert to
        x = np.float32(float(C.TRANS[nl]))
        for v in (x, np.nextafter(x, np.float32(100)), np.nextafter(x, np.float32(-100))):
            vals += [np.float32(v), np.float32(-v)]
    vals += [-0.0, np.float64(-0.0), np.float32(87.0), np.float32(86.99), np.float32(87.01), True, np.float64(10.470475), np.float32(10.5)]
    for v in vals:
        acc.n += 1
        r = call(f, v)
        lat = float(v)
        if r[0] != "ok" or r[1] not in C.NL_set(lat) or isinstance(r[1], bool) or int(r[1]) != r[1]:
            acc.bad(("" if cfg == "P" else "[C]") + "cprNL:argument_form:%s" % type(v).__name__,
                    {"cfg": cfg, "lat": lat, "lat_hex": lat.hex(), "form": type(v).__name__})
        acc.out.add((type(v).__name__, lat))
    # re-entrancy (preemption bound 1): a call suspended before any of its source lines while another call runs in between
    from engine.util import interleaved_ok
    bad_ = []
    for bound_ in (1, 2):       # the function is short: every schedule with one AND with two preemptions
        b__, nsch = interleaved_ok(f, [(10.0,), (45.0,), (87.0,), (-88.5,), (0.0,)], bound=bound_)
        bad_ += b__
        acc.n += nsch
        acc.c["interleaved_schedules"] += nsch
    for a_, nm_, k_ in bad_:
        acc.bad(("" if cfg == "P" else "[C]") + "cprNL:answer_changes_when_another_call_runs_in_between",
                {"cfg": cfg, "lat": float(a_[0]), "lat_hex": float(a_[0]).hex(), "form": "interleave", "preempt_before_line_event": k_})
    # the documented parameter passed by name (a decorator that swallows the signature breaks exactly this)
    from engine.util import kw_call
    for lat in (52.0, 0.0, -87.0, 10, 89.5):
        acc.n += 1
        r = kw_call(f, lat)
        if r is not None and (r[0] != "ok" or r[1] not in C.NL_set(float(lat))):
            acc.bad(("" if cfg == "P" else "[C]") + "cprNL:argument_form:keyword",
                    {"cfg": cfg, "lat": float(lat), "lat_hex": float(lat).hex(), "form": "keyword"})
    return acc.res()


def w_lats(arg):
    cfg, kind, spec = arg
    if kind == "forms":
        return w_forms(cfg)
    acc = Acc()
    if kind == "grid":
        lo, hi = spec
        lats = [k * 0.0005 for k in range(lo, hi)]
    elif kind == "list":
        lats = spec
    else:  # N2: constructible latitudes for zone size d, zone index j
        d, js = spec
        lats = []
        for j in js:
            base = np.arange(1 << 17, dtype=np.float64) / 131072.0
            v = d * (j + base)
            v = np.where(v >= 270, v - 360, v)
            v = v[(v >= -90.0) & (v <= 90.0)]
            lats.extend(v.tolist())
    prev = None
    for lat in lats:
        acc.n += 1
        s = judge(cfg, lat)
        if s:
            acc.bad(s, {"cfg": cfg, "lat": lat, "lat_hex": float(lat).hex()})
        if C.near_transition(lat, 1e-3) or abs(lat) < 1e-3:
            acc.out.add(lat)
    if lats:
        acc.samples.append({"cfg": cfg, "lat": lats[len(lats) // 2]})
    return acc.res()


def n1_points():
    pts = set()
    bps = list(C.TRANS.values()) + [0.0, 87.0, 90.0]
    for t in bps:
        for sgn in (1, -1):
            x = up = dn = t
            for k in range(65):
                pts.add(sgn * up)
                pts.add(sgn * dn)
                up = math.nextafter(up, math.inf)
                dn = math.nextafter(dn, -math.inf)
            for e in range(3, 13):
                for m in (1, 2, 5):
                    pts.add(sgn * (t + m * 10.0 ** -e))
                    pts.add(sgn * (t - m * 10.0 ** -e))
    return sorted(p for p in pts if -90.0 <= p <= 90.0)


def run(ctx):
    cfgs = list(CONFIGS)
    if "C" in cfgs:
        try:
            pm("C")
        except ImportError:
            cfgs.remove("C")
            ctx.notes.append("configuration C (pyx model) not available")
        except Exception as e:  # noqa: BLE001  (PyxTranslateError / a model that does not even import)
            # decide configuration P first; an undecidable C configuration is reported only if P found nothing
            cfgs.remove("C")
            ctx.deferred = "configuration C undecided, the pyx model could not be built: %s: %s" % (type(e).__name__, str(e)[:300])
    tasks = []
    n1 = n1_points()
    for cfg in cfgs:
        pm(cfg)
        step = 6000 if cfg == "P" else 3000
        tasks += [(cfg, "grid", (lo, min(lo + step, 180001))) for lo in range(-180000, 180001, step)]
        tasks += [(cfg, "list", c) for c in chunks(n1, 2000)]
        tasks.append((cfg, "forms", None))
        if ctx.thorough:
            for d, nj in ((6.0, 60), (360 / 59, 59), (1.5, 60), (90 / 59, 59)):
                # surface sizes: j%60 + north/south (-90) solutions are all inside the 4x finer airborne-like lattice
                for j in range(nj):
                    tasks.append((cfg, "n2", (d, [j])))
                if d < 2:
                    tasks += [(cfg, "n2", (d, [j - 60])) for j in range(nj)]
    ctx.pmap(w_lats, tasks)
    ctx.cov["configurations"] = cfgs
    ctx.cov["n1_points"] = len(n1)
    ctx.cov["exhaustive"] = False


def replay(case):
    if case.get("form") == "interleave":
        from engine.util import interleaved_ok
        bad_ = []
        for bound_ in (1, 2):
            bad_ += interleaved_ok(pm(case["cfg"]).common.cprNL, [(10.0,), (45.0,), (87.0,), (-88.5,), (0.0,)], bound=bound_)[0]
        return [(("" if case["cfg"] == "P" else "[C]") + "cprNL:answer_changes_when_another_call_runs_in_between", case)] if bad_ else []
    if case.get("form") == "keyword":
        from engine.util import kw_call
        lat = float.fromhex(case["lat_hex"])
        r = kw_call(pm(case["cfg"]).common.cprNL, lat)
        bad = r is not None and (r[0] != "ok" or r[1] not in C.NL_set(lat))
        return [(("" if case["cfg"] == "P" else "[C]") + "cprNL:argument_form:keyword", case)] if bad else []
    if "form" in case:
        lat = float.fromhex(case["lat_hex"])
        mk = {"int": int, "float": float, "bool": bool, "float64": np.float64, "float32": np.float32, "int64": np.int64}[case["form"]]
        r = call(pm(case["cfg"]).common.cprNL, mk(lat))
        bad = r[0] != "ok" or r[1] not in C.NL_set(lat) or isinstance(r[1], bool) or int(r[1]) != r[1]
        return [(("" if case["cfg"] == "P" else "[C]") + "cprNL:argument_form:%s" % case["form"], case)] if bad else []
    s = judge(case["cfg"], float.fromhex(case["lat_hex"]))
    return [(s, case)] if s else []
