"""C16 - stream framing is independent of chunking (explicit-state exploration of the real framers)."""
import itertools
import math
import os

from engine import loader, xstate
from engine.runner import Acc
from engine.util import chunks
from spec import beast as B
from spec import frames as F

LEVEL = "model_checking"
RULE = ("for every stream (all sequences of 1..2 (3 thorough) frames over a frame alphabet + terminator) breadth-first "
        "search over the real framer: state = (bytes delivered, framer object state, messages emitted), transition = "
        "deliver the next k bytes (every k) and call read_*_buffer once; every segmentation of the stream is a path; "
        "safety+progress invariant evaluated in every state; the real TcpClient.run() loop driven by a fake socket over every single cut, 1-byte and 3-byte pieces; NetSource/RtlSdrSource: every message sequence up to length 5 (6) x "
        "every batching; distinct = distinct (framer, stream)")
ASSUMPTIONS = [
    "progress obligation: a frame must have been emitted once the next frame's 0x1A *and* type byte (Beast), the ';' "
    "(raw) or the next '$' at offset 24 (Skysense) has been delivered; it may be emitted as early as its last byte",
    "timestamps taken from time.time() by the Beast/raw framers are not compared; Skysense timestamps are",
    "streams are well-formed and start at a frame boundary; the last frame is followed by the start of a next frame",
    "the RSSI value of read_beast_buffer_rssi_piaware is not judged, only that the frame is delivered (no exception)",
    "NetSource progress: at most 4 ADS-B messages may be pending (the code forwards as soon as 2 are buffered); Comm-B messages may wait for the next ADS-B batch",
]

pms = loader.load("P")
from pyModeS.extra.tcpclient import TcpClient  # noqa: E402
from pyModeS.streamer.source import NetSource, RtlSdrSource  # noqa: E402

LONG = bytes.fromhex("8D406B902015A678D4D220AA4BDA")
LONG2 = bytes.fromhex("A0001838201584F23468207CDFA5")
SHORT = bytes.fromhex("5D484FDEA248F5")
TS = [0x00, 0x11, 0x22, 0x33, 0x44, 0x55]


def _with(b, idx, val):
    b = bytearray(b)
    b[idx] = val
    return bytes(b)


BEAST_ALPHA = {
    "L": B.beast_frame(0x33, TS, 0x80, LONG),
    "Lts0": B.beast_frame(0x33, [0x1A] + TS[1:], 0x80, LONG),
    "Lts5": B.beast_frame(0x33, TS[:5] + [0x1A], 0x7F, LONG2),
    "Lsig": B.beast_frame(0x33, TS, 0x1A, LONG),
    "Lm0": B.beast_frame(0x33, TS, 0xFF, _with(LONG, 0, 0x1A)),
    "Lm13": B.beast_frame(0x33, TS, 0x01, _with(LONG, 13, 0x1A)),
    "Lmm": B.beast_frame(0x33, TS, 0x80, _with(_with(LONG2, 6, 0x1A), 7, 0x1A)),
    "S": B.beast_frame(0x32, TS, 0x40, SHORT),
    "Sm6": B.beast_frame(0x32, TS, 0x40, _with(SHORT, 6, 0x1A)),
    "AC": B.beast_frame(0x31, TS, 0x20, b"\x12\x34"),
    "ST": B.beast_frame(0x34, TS, 0x00, bytes(range(1, 8))),
    "ACe0": B.beast_frame(0x31, TS, 0x20, b"\x1a\x34"),           # escaped 0x1A as first / last Mode-AC byte
    "ACe1": B.beast_frame(0x31, TS, 0x20, b"\x12\x1a"),
    "STe": B.beast_frame(0x34, [0x1A] + TS[1:], 0x1A, b"\x01\x1a\x03\x04\x05\x06\x1a"),
    "Xl": B.beast_frame(0x32, TS, 0x40, LONG[:7]),      # short frame carrying a long-only DF: not admitted
    "Lsig0": B.beast_frame(0x33, TS, 0x00, LONG2),
}
for _df in range(32):
    # one long ('3') and one short ('2') Beast frame per downlink format (admission depends on DF vs length)
    BEAST_ALPHA["L%02d" % _df] = B.beast_frame(0x33, TS, 0x55, bytes([(_df << 3) | 5]) + LONG[1:])
    BEAST_ALPHA["S%02d" % _df] = B.beast_frame(0x32, TS, 0x55, bytes([(_df << 3) | 5]) + SHORT[1:])


def source_literals():
    """byte strings that occur as literals in the framer / source modules under test (lists or tuples of small ints,
    bytes and short str constants): the dictionary a fuzzer would extract.  A framer that treats a particular timestamp,
    signal level or payload prefix specially has to name it somewhere; frames carrying each such word in each field are
    added to the alphabets (values that appear nowhere in the source cannot be special)."""
    import ast
    words = []
    for rel in ("pyModeS/extra/tcpclient.py", "pyModeS/streamer/source.py"):
        try:
            tree = ast.parse(open(os.path.join(loader.SRC, rel)).read())
        except (OSError, SyntaxError):
            continue
        for node in ast.walk(tree):
            w = None
            if isinstance(node, (ast.List, ast.Tuple)) and len(node.elts) >= 2 and all(
                    isinstance(e, ast.Constant) and isinstance(e.value, int) and not isinstance(e.value, bool) and 0 <= e.value <= 255 for e in node.elts):
                w = bytes(e.value for e in node.elts)
            elif isinstance(node, ast.Constant) and isinstance(node.value, bytes) and 2 <= len(node.value) <= 14:
                w = node.value
            elif isinstance(node, ast.Constant) and isinstance(node.value, str) and 2 <= len(node.value) <= 8:
                try:
                    w = node.value.encode("latin-1")
                except UnicodeEncodeError:
                    w = None
                if w is not None and all(c in "0123456789abcdefABCDEF" for c in node.value) and len(node.value) % 2 == 0:
                    words.append(bytes.fromhex(node.value))
            elif isinstance(node, ast.Constant) and isinstance(node.value, int) and not isinstance(node.value, bool) and node.value > 0xFFFF:
                v = node.value
                w = v.to_bytes((v.bit_length() + 7) // 8, "big")
            if w:
                words.append(w)
    return list(dict.fromkeys(words))[:40]


def _fit(word, n, pad):
    """word placed at the start / at the end of an n-byte field (padded with `pad` bytes)."""
    w = bytes(word[:n])
    return [w + bytes(pad[:n - len(w)]), bytes(pad[:n - len(w)]) + w]


for _k, _w in enumerate(source_literals()):
    for _j, _ts in enumerate(_fit(_w, 6, bytes(TS))):
        BEAST_ALPHA["D%dt%d" % (_k, _j)] = B.beast_frame(0x33, list(_ts), 0x80, LONG)
        BEAST_ALPHA["D%ds%d" % (_k, _j)] = B.beast_frame(0x32, list(_ts), _w[0], SHORT)
    BEAST_ALPHA["D%dp" % _k] = B.beast_frame(0x33, TS, _w[-1], LONG[:1] + (_w + LONG[1:])[:13])
BEAST_CORE = ["L", "Lts0", "Lts5", "Lsig", "Lm0", "Lm13", "Lmm", "S", "Sm6", "AC", "ST", "ACe0", "ACe1", "STe", "Xl", "Lsig0"]
BEAST_TERM = [0x1A, 0x33]

RAW_ALPHA = {
    "U28": B.raw_frame(LONG.hex().upper(), b"\n"),
    "l28": B.raw_frame(LONG2.hex(), b"\r\n"),
    "U14": B.raw_frame(SHORT.hex().upper(), b""),
    "l14": B.raw_frame(SHORT.hex(), b"\n"),
    "m28": B.raw_frame(F.with_case(LONG.hex(), "m"), b"\n\r"),
}
SKY_ALPHA = {
    "L": B.skysense_frame(LONG, [0x80, 0x01, 0x02, 0x03, 0x04, 0x05], [1, 2, 3]),
    "S": B.skysense_frame(SHORT + bytes(7), [0x00, 0x10, 0x20, 0x30, 0x40, 0x50], [0, 0, 0]),
    "Lp": B.skysense_frame(_with(LONG, 5, 0x24), [0x80, 0x24, 0x02, 0x03, 0x24, 0x05], [0x24, 2, 3]),
    "Lq": B.skysense_frame(_with(LONG2, 5, 0x24), [0xFF, 0xFF, 0xFF, 0xFF, 0xFF, 0xFF], [9, 0x24, 9]),
    "S0": B.skysense_frame(_with(SHORT, 0, 0x24) + bytes(7), [0, 0, 0, 0, 0, 0], [0x24, 0x24, 0x24]),
    "L0": B.skysense_frame(LONG, [0x80, 0, 0, 0, 0, 0], [0, 0, 0]),      # long frame stamped 00:00:00.000000000
}
for _df in range(32):
    # Skysense carries 14 payload bytes; formats 16-31 (first bit set) are long, 0-15 short
    SKY_ALPHA["F%02d" % _df] = B.skysense_frame(bytes([(_df << 3) | 3]) + LONG2[1:], [0x80, 1, 2, 3, 4, _df], [1, 2, _df])
for _k, _w in enumerate(source_literals()):
    for _j, _ts in enumerate(_fit(_w, 6, bytes([0x80, 1, 2, 3, 4, 5]))):
        SKY_ALPHA["D%dt%d" % (_k, _j)] = B.skysense_frame(LONG, list(_ts), [1, 2, 3])
    SKY_ALPHA["D%dp" % _k] = B.skysense_frame(LONG[:1] + (_w + LONG[1:])[:13], [0x80, 1, 2, 3, 4, 5], list((_w + b"\x01\x02\x03")[:3]))
SKY_CORE = ["L", "S", "Lp", "Lq", "S0", "L0"]
SKY_TERM = [0x24]

FRAMERS = {
    "beast": (BEAST_ALPHA, BEAST_TERM, "read_beast_buffer", B.beast_reference),
    "beast_rssi": (BEAST_ALPHA, BEAST_TERM, "read_beast_buffer_rssi_piaware", B.beast_reference),
    "raw": (RAW_ALPHA, [], "read_raw_buffer", B.raw_reference),
    "skysense": (SKY_ALPHA, SKY_TERM, "read_skysense_buffer", B.skysense_reference),
}


def new_client(framer):
    dt = {"beast": "beast", "beast_rssi": "beast", "raw": "raw", "skysense": "skysense"}[framer]
    return TcpClient("localhost", 0, dt)


_SHARED = set()     # attribute names found not to be deep-copyable (sockets, contexts): shared between clones


def clone(c):
    """copy of the client object for one more edge: every attribute that can be deep-copied is (lists, bytearrays, dicts,
    helper objects - whatever the framer keeps its state in), the rest (sockets, contexts) is shared."""
    import copy
    c2 = object.__new__(type(c))
    d = {}
    for k, v in c.__dict__.items():
        if isinstance(v, (str, int, float, bool, type(None), bytes)):
            d[k] = v
            continue
        if type(v) is list and (not v or isinstance(v[0], int)):
            d[k] = list(v)
            continue
        if type(v) is bytearray:
            d[k] = bytearray(v)
            continue
        if k in _SHARED:
            d[k] = v
            continue
        try:
            d[k] = copy.deepcopy(v)
        except Exception:  # noqa: BLE001
            _SHARED.add(k)
            d[k] = v
    c2.__dict__ = d
    return c2


def _canon(v):
    if isinstance(v, (list, tuple, bytearray, bytes)):
        return tuple(_canon(x) for x in v)
    if isinstance(v, dict):
        return tuple(sorted((repr(k), _canon(x)) for k, x in v.items()))
    if isinstance(v, (str, int, float, type(None), bool)):
        return v
    return None


def ckey(c):
    return tuple(sorted((k, _canon(v)) for k, v in c.__dict__.items()
                        if isinstance(v, (list, tuple, bytearray, bytes, dict, str, int, float, type(None), bool))))


def step(framer, client, chunk):
    """deliver one chunk exactly as TcpClient.run does; returns list of emitted items or ('exc', name)."""
    client.buffer.extend(chunk)
    try:
        msgs = getattr(client, FRAMERS[framer][2])()
    except Exception as e:  # noqa: BLE001
        return ("exc", type(e).__name__)
    out = []
    for m in msgs or []:
        out.append((m[0], m[-1]) if framer == "skysense" else (m[0],))
    return out


def make_invariant(framer, stream, ref):
    def inv(st):
        client, pos, emitted, exc, lastcut = st
        if exc:
            return ("%s:exception:%s" % (framer, exc), {"pos": pos})
        # match what was emitted against the reference frame list, in order; frames marked optional (unassigned formats,
        # length contradicting the format) may be skipped by the framer, but whatever is emitted must be a reference frame
        j = 0
        nreq = 0
        for e in emitted:
            while j < len(ref) and ref[j]["msg"] != e[0] and ref[j].get("optional"):
                j += 1
            if j >= len(ref):
                return ("%s:safety:extra_or_duplicated_frame" % framer, {"pos": pos, "emitted": list(emitted)})
            if e[0] != ref[j]["msg"]:
                kind = "truncated_or_merged_frame" if (e[0] in ref[j]["msg"] or ref[j]["msg"] in e[0] or len(e[0]) != len(ref[j]["msg"])) else "corrupted_frame"
                if any(e[0] == r["msg"] for r in ref[j + 1:]):
                    kind = "frame_lost"
                return ("%s:safety:%s" % (framer, kind), {"pos": pos, "emitted": list(emitted), "expected": [r["msg"] for r in ref]})
            if framer == "skysense" and abs(e[1] - ref[j]["ts"]) > 1e-9:
                return ("skysense:safety:wrong_timestamp", {"pos": pos})
            if ref[j]["end"] > pos:
                return ("%s:safety:frame_delivered_before_complete" % framer, {"pos": pos})
            if not ref[j].get("optional"):
                nreq += 1
            j += 1
        must = sum(1 for r in ref if r["lenient"] <= pos and not r.get("optional"))
        if nreq < must:
            return ("%s:progress:complete_frame_not_delivered" % framer, {"pos": pos, "emitted": nreq, "complete": must})
        return None
    return inv


def explore_stream(framer, stream):
    ref = FRAMERS[framer][3](stream)
    N = len(stream)
    init = (new_client(framer), 0, (), None, 0)

    def key(st):
        return (st[1], st[2], ckey(st[0]), st[3])

    def succ(st):
        client, pos, emitted, exc, _ = st
        # k = 0: a read that delivered no new bytes (empty recv / the loop calling the framer again) must change nothing
        for k in range(0, N - pos + 1):
            c2 = clone(client)
            out = step(framer, c2, stream[pos:pos + k])
            if isinstance(out, tuple):
                yield k, (c2, pos + k, emitted, out[1], pos)
            else:
                yield k, (c2, pos + k, emitted + tuple(out), None, pos)

    res = xstate.bfs(init, key, succ, make_invariant(framer, stream, ref))
    return res, ref


def cutclass(framer, stream, cuts):
    """describe where the decisive (last) cut fell."""
    if not cuts:
        return "no_cut"
    pos = 0
    cls = set()
    for k in cuts[:-1] if sum(cuts) == len(stream) else cuts:
        pos += k
        if pos >= len(stream):
            break
        if framer.startswith("beast"):
            if stream[pos - 1] == 0x1A and stream[pos] == 0x1A:
                cls.add("cut_inside_0x1A_pair")
            elif stream[pos - 1] == 0x1A:
                cls.add("cut_after_frame_start_0x1A")
            else:
                cls.add("cut_mid_frame")
        else:
            cls.add("cut_mid_frame")
    return "+".join(sorted(cls)) or "no_cut"


def w_streams(arg):
    framer, names_list = arg
    alpha, term = FRAMERS[framer][0], FRAMERS[framer][1]
    acc = Acc()
    acc.cov["states"] = 0
    acc.cov["transitions"] = 0
    for names in names_list:
        stream = [b for nm in names for b in alpha[nm]] + term
        res, ref = explore_stream(framer, stream)
        acc.n += 1
        acc.cov["states"] += res.states
        acc.cov["transitions"] += res.transitions
        acc.c["frames_expected"] += len(ref)
        acc.out.add((framer, names))
        for sig, trace, info in res.violations:
            acc.bad(sig, {"kind": "stream", "framer": framer, "frames": list(names), "stream": bytes(stream).hex(),
                          "chunks": trace, "info": info, "cut": cutclass(framer, stream, trace)})
    if names_list:
        acc.samples.append({"framer": framer, "frames": list(names_list[-1]), "stream_hex": bytes(stream).hex(),
                            "states": res.states, "transitions": res.transitions, "reference_frames": [r["msg"] for r in ref]})
    return acc.res()


# ------------------------------------------------------------------ NetSource
class _Pipe:
    def __init__(self):
        self.sent = []

    def send(self, obj):
        self.sent.append({k: list(v) for k, v in obj.items()})


class _Flag:
    value = False


NS_ALPHA = {
    "a17": F.es(F.me(11, rest=0x123456789), df=17),
    "a18": F.es(F.me(4, rest=0x4D2), df=18, aa=0xABCDEF),
    "b20": F.long_ap(20, 0x123, 0x20041041041041, 0x406B90),
    "b21": F.long_ap(21, 0x456, 0x10000000000000, 0xABCDEF),
    "s11": F.df11(0x406B90),
    "x16": F.long_ap(16, 0, 0x1234, 0x406B90),
    "x24": "C" + "1" * 27,
}


NS_CLOCKS = ["float", "zero", "int0", "same", "wrap"]


def ns_clock(kind, k):
    """timestamp of the k-th message (k = 0, 1, ...): ordinary floats; a stream that starts at exactly 0.0 (Skysense
    frames carry the second of the day: 00:00:00 is 0.0); integer seconds from 0; all messages stamped alike."""
    if kind == "float":
        return 100.25 + 0.25 * k
    if kind == "zero":
        return 0.25 * k
    if kind == "int0":
        return k
    if kind == "wrap":
        # receiver time of day (Skysense) wrapping at midnight after the second message: timestamps are NOT monotone;
        # "in order" means the order in which the messages were handed over
        return [86399.25, 86399.75][k] if k < 2 else 0.25 + 0.5 * (k - 2)
    return 5.0


def ns_run(seq, batching, cls="net", clock="float"):
    if cls == "net":
        src = NetSource("localhost", 0, "beast")
    else:
        src = RtlSdrSource()                    # the real constructor (stand-in rtlsdr module, see engine.loader.fake_rtlsdr)
        src.reset_local_buffer()
    src.stop_flag = _Flag()
    pipe = _Pipe()
    src.raw_pipe_in = pipe
    i = 0
    kmsg = 0
    handed_a, handed_b = [], []
    for size in batching:
        batch = []
        for nm in seq[i:i + size]:
            t = ns_clock(clock, kmsg)
            kmsg += 1
            batch.append((NS_ALPHA[nm], t))
            if nm in ("a17", "a18"):
                handed_a.append((NS_ALPHA[nm], t))
            elif nm in ("b20", "b21"):
                handed_b.append((NS_ALPHA[nm], t))
        i += size
        try:
            src.handle_messages(batch)
        except Exception as e:  # noqa: BLE001
            return "netsource:exception:%s" % type(e).__name__
        got_a = [(m, ts) for d in pipe.sent for m, ts in zip(d["adsb_msg"], d["adsb_ts"])] + \
            list(zip(src.local_buffer_adsb_msg, src.local_buffer_adsb_ts))
        got_b = [(m, ts) for d in pipe.sent for m, ts in zip(d["commb_msg"], d["commb_ts"])] + \
            list(zip(src.local_buffer_commb_msg, src.local_buffer_commb_ts))
        # only DF17/18 and DF20/21 messages are covered by the statement: whether messages of other formats are passed on
        # as well is not constrained, so they are filtered out of what was forwarded before comparing
        dfof = lambda m: int(m[:2], 16) >> 3      # noqa: E731
        got_a = [x for x in got_a if dfof(x[0]) in (17, 18)]
        got_b = [x for x in got_b if dfof(x[0]) in (20, 21)]
        if got_a != handed_a:
            return "netsource:adsb_lost_duplicated_or_reordered"
        if got_b != handed_b:
            return "netsource:commb_lost_duplicated_or_reordered"
        if len(src.local_buffer_adsb_msg) >= 5:
            return "netsource:messages_never_forwarded"      # lenient progress bound (the code forwards at 2)
        for d in pipe.sent:
            if len(d["adsb_msg"]) != len(d["adsb_ts"]) or len(d["commb_msg"]) != len(d["commb_ts"]):
                return "netsource:timestamps_not_paired"
    return None


def run_lengths():
    """lengths of a run of messages of one kind worth trying: the int literals and numeric module constants of
    streamer/source.py from 8 up (a source that forwards in portions takes the portion size from one of them), some round
    numbers, each with its neighbours and its double + 1."""
    from engine.util import source_words
    import pyModeS.streamer.source as M
    base = {16, 64, 100, 128, 256, 1000}
    base |= {int(v) for v in vars(M).values() if isinstance(v, (int, float)) and not isinstance(v, bool) and 8 <= v <= 5000 and v == int(v)}
    base |= {x for x in source_words(["streamer/source.py"])["ints"] if 8 <= x <= 5000}
    out = set()
    for v in base:
        out |= {v - 1, v, v + 1, 2 * v + 1}
    return sorted(x for x in out if x <= 5000)


def ns_long(pattern, n, per_read, cls):
    """one long history: pattern is a string over a (ADS-B), b (Comm-B), A / B (a run of n of them); handed over in reads
    of per_read messages; everything handed over must have been forwarded (or still be buffered), once, in order."""
    seq = []
    for ch in pattern:
        seq += {"a": ["a17"], "b": ["b20"], "A": ["a17", "a18"] * (n // 2) + ["a17"] * (n % 2), "B": ["b20", "b21"] * (n // 2) + ["b20"] * (n % 2)}[ch]
    if cls == "net":
        src = NetSource("localhost", 0, "beast")
    else:
        src = RtlSdrSource()
        src.reset_local_buffer()
    src.stop_flag = _Flag()
    pipe = _Pipe()
    src.raw_pipe_in = pipe
    handed_a, handed_b = [], []
    for i in range(0, len(seq), per_read):
        batch = []
        for k, nm in enumerate(seq[i:i + per_read]):
            t = 100.25 + 0.25 * (i + k)
            batch.append((NS_ALPHA[nm], t))
            (handed_a if nm[0] == "a" else handed_b).append((NS_ALPHA[nm], t))
        try:
            src.handle_messages(batch)
        except Exception as e:  # noqa: BLE001
            return "netsource:exception:%s" % type(e).__name__
    got_a = [(m, ts) for d in pipe.sent for m, ts in zip(d["adsb_msg"], d["adsb_ts"])] + list(zip(src.local_buffer_adsb_msg, src.local_buffer_adsb_ts))
    got_b = [(m, ts) for d in pipe.sent for m, ts in zip(d["commb_msg"], d["commb_ts"])] + list(zip(src.local_buffer_commb_msg, src.local_buffer_commb_ts))
    if got_a != handed_a:
        return "netsource:adsb_lost_duplicated_or_reordered"
    if got_b != handed_b:
        return "netsource:commb_lost_duplicated_or_reordered"
    for d in pipe.sent:
        if len(d["adsb_msg"]) != len(d["adsb_ts"]) or len(d["commb_msg"]) != len(d["commb_ts"]):
            return "netsource:timestamps_not_paired"
    return None


NS_PATTERNS = ["aBa", "aBaa", "Baa", "bAb", "aBAa", "ABab", "aBaBa", "A", "Ab"]


def w_nslong(part):
    acc = Acc()
    acc.cov["states"] = 0
    acc.cov["transitions"] = 0
    for n in run_lengths()[part::4]:
        for pat in NS_PATTERNS:
            for per_read in sorted({1, 2, 15, n, n + 1, 10 ** 6}):
                for cls in ("net", "rtl"):
                    acc.n += 1
                    acc.cov["transitions"] += 1
                    s = ns_long(pat, n, per_read, cls)
                    if s:
                        acc.bad(s + ":long_run" + ("" if cls == "net" else ":RtlSdrSource"),
                                {"kind": "nslong", "pattern": pat, "run": n, "per_read": per_read, "cls": cls})
        acc.out.add(("nslong", n))
    return acc.res()


def compositions(n):
    if n == 0:
        yield ()
        return
    for first in range(1, n + 1):
        for rest in compositions(n - first):
            yield (first,) + rest


def w_ns(arg):
    first, maxlen = arg
    acc = Acc()
    acc.cov["states"] = 0
    acc.cov["transitions"] = 0
    names = sorted(NS_ALPHA)
    for n in range(1, maxlen + 1):
        for rest in itertools.product(names, repeat=n - 1):
            seq = (first,) + rest
            for comp in compositions(n):
                for cls in ("net", "rtl"):
                    for clock in NS_CLOCKS:
                        acc.n += 1
                        acc.cov["transitions"] += len(comp)
                        acc.cov["states"] += 1
                        s = ns_run(seq, comp, cls, clock)
                        if s:
                            acc.bad(s + ("" if cls == "net" else ":RtlSdrSource") + ("" if clock == "float" else ":clock_" + clock),
                                    {"kind": "netsource", "seq": list(seq), "batching": list(comp), "cls": cls, "clock": clock})
            acc.out.add(("netsource", seq))
    return acc.res()


class _EndOfStream(Exception):
    pass


class _Sock:
    def __init__(self, chunks):
        self.chunks = list(chunks)

    def recv(self, n):
        if not self.chunks:
            raise _EndOfStream()
        c = self.chunks.pop(0)
        if c == "empty":
            return b""                       # a zero-length delivery (zmq STREAM hands those out on connect / disconnect)
        if c is None:
            import zmq
            raise zmq.error.Again()          # receive timeout: the link was idle for RCVTIMEO, the stream simply continues
        return bytes(c)

    def close(self):
        pass


def run_loop(datatype, stream, cuts, idle=(), empty=()):
    """drive the real TcpClient.run() loop with a fake socket delivering the given pieces; after the pieces whose index
    is in `idle` the socket times out once (zmq.error.Again)."""
    c = TcpClient("localhost", 0, datatype)
    pieces = []
    for i, ch in enumerate(cuts_to_chunks(stream, cuts)):
        pieces.append(ch)
        if i in idle:
            pieces.append(None)
        if i in empty:
            pieces.append("empty")
    c.connect = lambda: setattr(c, "socket", _Sock(pieces))
    got = []
    c.handle_messages = lambda messages: got.extend(m[0] for m in messages)
    try:
        c.run()
    except _EndOfStream:
        pass
    except Exception as e:  # noqa: BLE001
        return ("exc", type(e).__name__)
    return got


def delivered_ok(got, ref, n):
    """end-of-stream comparison for the run-loop harness: `got` must be the reference frames in order, each once, where
    frames marked optional may be missing; every non-optional frame that is complete after n bytes must be there."""
    j = 0
    for g in got:
        while j < len(ref) and ref[j]["msg"] != g and ref[j].get("optional"):
            j += 1
        if j >= len(ref) or ref[j]["msg"] != g:
            return False
        j += 1
    return all(r.get("optional") or r["lenient"] > n for r in ref[j:])


def cuts_to_chunks(stream, cuts):
    out, pos = [], 0
    for k in cuts:
        out.append(stream[pos:pos + k])
        pos += k
    if pos < len(stream):
        out.append(stream[pos:])
    return out


def w_runloop(arg):
    framer, names_list = arg
    alpha, term, _, reffn = FRAMERS[framer]
    acc = Acc()
    acc.cov["states"] = 0
    acc.cov["transitions"] = 0
    for names in names_list:
        stream = [b for nm in names for b in alpha[nm]] + term
        refl = reffn(stream)
        want = [r["msg"] for r in refl]
        N = len(stream)
        segs = [[N]] + [[k] for k in range(1, N)] + [[1] * N] + [[3] * (N // 3)] + [[k, 1] for k in range(1, N - 1, 2)]
        for cuts in segs:
            npieces = len(cuts_to_chunks(stream, cuts))
            idles = [()] + ([tuple(range(npieces))] if npieces <= 4 else []) + [(i,) for i in range(min(npieces, 3))]
            for idle, empty in [(i_, ()) for i_ in idles] + [((), e_) for e_ in idles[1:]]:
                got = run_loop(framer, stream, cuts, idle, empty)
                acc.n += 1
                acc.cov["transitions"] += len(cuts) + 1 + len(idle) + len(empty)
                tag = ":with_receive_timeouts" if idle else ":with_empty_reads" if empty else ""
                if isinstance(got, tuple):
                    acc.bad("%s:run_loop:exception:%s%s" % (framer, got[1], tag), {"kind": "runloop", "framer": framer, "stream": bytes(stream).hex(), "cuts": cuts, "idle": list(idle), "empty": list(empty)})
                elif not delivered_ok(got, refl, N):
                    acc.bad("%s:run_loop:delivered_messages_differ_from_reference%s" % (framer, tag),
                            {"kind": "runloop", "framer": framer, "stream": bytes(stream).hex(), "cuts": cuts, "idle": list(idle), "empty": list(empty), "got": got, "want": want})
        acc.out.add(("runloop", framer, names))
    return acc.res()


def piece_sizes():
    """sizes of one delivered piece worth trying on a long stream: powers of two 256 .. 65536 and their neighbours, the
    usual TCP payload sizes, and every size the client module itself names (module constants, int literals of
    extra/tcpclient.py from 256 up, the eight largest products of two literals below 200 000) - a client that bounds or blocks its buffer
    has to take the bound from one of them - each also with one byte less / more and doubled."""
    from engine.util import source_words
    import pyModeS.extra.tcpclient as M
    base = {1 << k for k in range(8, 17)} | {1448, 1460, 1500, 9000}
    named = {int(v) for v in vars(M).values() if isinstance(v, (int, float)) and not isinstance(v, bool) and 64 <= v <= 200000 and v == int(v)}
    ints = [x for x in source_words(["extra/tcpclient.py"])["ints"] if 2 <= x <= 200000]
    named |= {x for x in ints if 256 <= x}
    prods = sorted({a * b for a in ints for b in ints if 1000 <= a * b <= 200000} - named, reverse=True)
    named |= set(prods[:8])
    out = set()
    for v in base | named:
        out |= {v - 1, v, v + 1, 2 * v, 2 * v + 1}
    return sorted(x for x in out if 64 <= x <= 200000)


def w_long(arg):
    """long streams (thousands of frames, every frame of the alphabet in rotation) delivered by the real run loop in a few
    LARGE pieces: the whole stream at once, and pieces of every size in piece_sizes()."""
    framer, part = arg
    alpha, term, _, reffn = FRAMERS[framer]
    acc = Acc()
    acc.cov["states"] = 0
    acc.cov["transitions"] = 0
    core = BEAST_CORE if framer == "beast" else SKY_CORE if framer == "skysense" else sorted(alpha)
    good = [nm for nm in core if len(reffn([b for b in alpha[nm]] + term)) == 1]
    stream = []
    i = 0
    while len(stream) < 70000:
        stream += alpha[good[i % len(good)]]
        i += 1
    stream += term
    refl = reffn(stream)
    N = len(stream)
    sizes = [N] + piece_sizes()
    for size in sizes[part::4]:
        cuts = [size] * (N // size)
        got = run_loop(framer, stream, cuts)
        acc.n += 1
        acc.cov["transitions"] += len(cuts) + 1
        if isinstance(got, tuple):
            acc.bad("%s:run_loop:exception:%s:long_stream_in_large_pieces" % (framer, got[1]), {"kind": "long", "framer": framer, "piece": size})
        elif not delivered_ok(got, refl, N):
            acc.bad("%s:run_loop:delivered_messages_differ_from_reference:long_stream_in_large_pieces" % framer,
                    {"kind": "long", "framer": framer, "piece": size, "frames_in_stream": len(refl), "frames_delivered": len(got)})
        acc.out.add(("long", framer, size))
    return acc.res()


def w_any(t):
    if t[0] == "N":
        return w_nslong(t[1])
    if t[0] == "L":
        return w_long(t[1])
    if t[0] == "r":
        return w_runloop(t[1])
    return {"s": w_streams, "n": w_ns}[t[0]](t[1])


def run(ctx):
    depth = 3 if ctx.thorough else 2
    tasks = []
    for framer, (alpha, term, _, _) in FRAMERS.items():
        seqs = []
        core = BEAST_CORE if framer.startswith("beast") else SKY_CORE if framer == "skysense" else sorted(alpha)
        for n in range(1, depth + 1):
            if n == 1:
                seqs += [(a,) for a in sorted(alpha)]           # every frame of the alphabet incl. one per DF
            elif n == 3 and framer.startswith("beast"):
                sub = ["L", "Lts5", "Lsig", "Lm13", "Lmm", "S", "Sm6", "AC", "ACe1", "STe"]
                seqs += list(itertools.product(sub, repeat=3))
            else:
                seqs += list(itertools.product(core, repeat=n))
        if framer == "skysense":
            seqs += [("F22", "F04"), ("F04", "F23"), ("F31", "F16")]
        tasks += [("s", (framer, c)) for c in chunks(seqs, 4)]
    tasks += [("n", (first, 6 if ctx.thorough else 5)) for first in sorted(NS_ALPHA)]
    for framer in ("beast", "raw", "skysense"):
        alpha = FRAMERS[framer][0]
        core = BEAST_CORE if framer == "beast" else SKY_CORE if framer == "skysense" else sorted(alpha)
        seqs = [(a,) for a in sorted(alpha)] + [(a, b) for a in core for b in core][:: (1 if ctx.thorough else 3)]
        tasks += [("r", (framer, c)) for c in chunks(seqs, 6)]
    tasks += [("L", (framer, part)) for framer in ("beast", "raw", "skysense") for part in range(4)]
    tasks += [("N", part) for part in range(4)]
    ctx.cov["states"] = 0
    ctx.cov["transitions"] = 0
    ctx.pmap(w_any, tasks)
    ctx.cov["traces_validated_against_impl"] = ctx.cov["transitions"]
    ctx.cov["exhaustive"] = True
    ctx.cov["bound"] = "streams of <= %d frames; every segmentation; NetSource sequences <= %d messages x every batching" % (depth, 6 if ctx.thorough else 5)
    ctx.cov["explanation"] = "every transition is one real call of read_*_buffer / handle_messages on the real object"


def replay(case):
    if case["kind"] == "nslong":
        s_ = ns_long(case["pattern"], case["run"], case["per_read"], case["cls"])
        return [(s_ + ":long_run" + ("" if case["cls"] == "net" else ":RtlSdrSource"), case)] if s_ else []
    if case["kind"] == "long":
        return [(s_, c_) for part in range(4) for s_, c_ in w_long((case["framer"], part))["viols"] if c_["piece"] == case["piece"]]
    if case["kind"] == "runloop":
        stream = list(bytes.fromhex(case["stream"]))
        got = run_loop(case["framer"], stream, case["cuts"], tuple(case.get("idle", ())), tuple(case.get("empty", ())))
        refl = FRAMERS[case["framer"]][3](stream)
        tag = ":with_receive_timeouts" if case.get("idle") else ":with_empty_reads" if case.get("empty") else ""
        if isinstance(got, tuple):
            return [("%s:run_loop:exception:%s%s" % (case["framer"], got[1], tag), case)]
        return [("%s:run_loop:delivered_messages_differ_from_reference%s" % (case["framer"], tag), case)] if not delivered_ok(got, refl, len(stream)) else []
    if case["kind"] == "netsource":
        ck = case.get("clock", "float")
        s = ns_run(tuple(case["seq"]), tuple(case["batching"]), case.get("cls", "net"), ck)
        sfx = "" if ck == "float" else ":clock_" + ck
        return [(s + sfx, case), (s + ":RtlSdrSource" + sfx, case)] if s else []
    framer = case["framer"]
    stream = list(bytes.fromhex(case["stream"]))
    ref = FRAMERS[framer][3](stream)
    inv = make_invariant(framer, stream, ref)
    c = new_client(framer)
    pos, emitted = 0, ()
    out = []
    for k in case["chunks"]:
        r = step(framer, c, stream[pos:pos + k])
        pos += k
        if isinstance(r, tuple):
            st = (c, pos, emitted, r[1], 0)
        else:
            emitted += tuple(r)
            st = (c, pos, emitted, None, 0)
        v = inv(st)
        if v:
            out.append((v[0], case))
            break
    return out
