"""C17 - live aircraft table: explicit-state exploration of the real Decode.process_raw."""
import copy
import itertools
import math
from fractions import Fraction as Fr

from engine import loader, xstate
from engine.runner import Acc
from engine.util import chunks
from spec import commb_fields as CF
from spec import cpr as C
from spec import frames as F

LEVEL = "model_checking"
RULE = ("three depth-bounded exhaustive explorations, every edge one real process_raw() call on a deep copy of the "
        "parent table: (1b) batches of 1-2 position messages of two aircraft 540 NM apart per call, all sequences of 3 (4) calls; (1) positions - one aircraft on 8 scripted trajectories (NL transitions, equator, antimeridian, "
        "lon 0, high latitude, take-off, taxi across the equator), events {even, odd} x gaps either side of every "
        "threshold (10 s, 180 s) plus a 1500 s gap that outruns the 180 NM reference range; (2) listing / Comm-B gating - two aircraft x {ident, position, BDS50, BDS60} x "
        "gaps around 59/61 s, upper- and lower-case tables advanced in lockstep; (2b) the same with calls that happen 0 / 1.4 s after the message was stamped (tnow > t) and calls that carry no message at all (only time passes); (3) robustness - all ordered pairs "
        "(triples thorough) over an alphabet of arbitrary/corrupt DF17/18 and DF20/21 messages from the empty table "
        "and from seed states; (3b) every combination of record features (position none / with altitude / altitude unknown / surface) x (velocity none / ground speed) x (version none / 1 / 2) x all singles and ordered pairs of Comm-B replies chosen to cover every distinct answer of infer() incl. multi-candidate ones, in DF20 carriers with and without a decodable altitude and in DF21; distinct = distinct canonical table states")
ASSUMPTIONS = [
    "trajectories stay below |lat| 86.4 deg: beyond that the CPR longitude quantum itself exceeds 0.001 deg",
    "stored longitude is compared modulo 360 (position_with_ref may legitimately return lon outside [-180,180))",
    "explorations 1-3 use one message per process_raw call, tnow = message time (2b: tnow = message time + 0 / 1.4 s, and empty calls); exploration 1b feeds batches of 1-2 ADS-B messages of two distant aircraft per call (the order of ADS-B vs Comm-B inside one batch is not explored)",
    "last-heard time of the reference counts a Comm-B message only if the aircraft was listed when it arrived",
    "surface phases use realistic speeds (<= 40 kt taxi) and a receiver within 30 NM",
]

pms = loader.load("P")
from pyModeS.streamer.decode import Decode  # noqa: E402

GAPS1 = [0.4, 4, 9.6, 10.4, 59, 179.6, 180.4, 1500]
KT = 1.0 / 216000.0   # degrees of latitude per knot-second


class Traj:
    def __init__(self, name, lat0, lon0, hdg, kt, receiver=None, surface_until=None, taxi_kt=None, kinds=(0, 1), gaps=None,
                 surface_from=None):
        self.name, self.lat0, self.lon0, self.hdg, self.kt = name, lat0, lon0, hdg, kt
        self.receiver, self.surface_until, self.taxi_kt = receiver, surface_until, taxi_kt
        self.kinds, self.gaps, self.surface_from = kinds, gaps, surface_from
        self.ch, self.sh = math.cos(math.radians(hdg)), math.sin(math.radians(hdg))
        self.cl = math.cos(math.radians(lat0))

    def dist(self, t):
        """knot-seconds travelled by time t."""
        if self.surface_from is not None:         # landing: airborne until surface_from, then rolling out at taxi_kt
            if t <= self.surface_from:
                return self.kt * t
            return self.kt * self.surface_from + self.taxi_kt * (t - self.surface_from)
        if self.surface_until is None:
            return self.kt * t
        if t <= self.surface_until:
            return self.taxi_kt * t
        return self.taxi_kt * self.surface_until + self.kt * (t - self.surface_until)

    def pos(self, t):
        d = self.dist(t) * KT
        lat = self.lat0 + d * self.ch
        lon = self.lon0 + d * self.sh / self.cl
        return lat, (lon + 180.0) % 360.0 - 180.0

    def on_ground(self, t):
        if self.surface_from is not None:
            return t >= self.surface_from
        return self.surface_until is not None and t <= self.surface_until


TRAJ = {t.name: t for t in [
    Traj("NL59_north_600kt", C.TRANS[59] - 0.01, 5.0, 0, 600),
    Traj("NL4_north_18kt", C.TRANS[4] - 0.005, -120.0, 0, 18),
    Traj("equator_south_600kt", 0.02, -30.0, 180, 600),
    Traj("NL48_south_480kt", -C.TRANS[48] + 0.004, 174.8, 180, 480),
    Traj("NL30_southern_north_600kt", -C.TRANS[30] - 0.01, -70.0, 0, 600),
    Traj("antimeridian_east_600kt", 52.0, 179.97, 90, 600),
    Traj("lon0_west_600kt", -33.9, 0.03, 270, 600),
    Traj("lat86.3_east_300kt", 86.3, 179.5, 90, 300),
    Traj("diagonal_500kt", 14.80, -179.95, 315, 500),
    Traj("takeoff", 51.99, 4.37, 60, 160, receiver=(52.30, 4.80), surface_until=12.0, taxi_kt=25),
    Traj("taxi_across_equator", 0.0008, 32.44, 180, 30, receiver=(0.30, 32.60), surface_until=1e9, taxi_kt=30),
    Traj("stationary", 47.3, 8.5, 0, 0),
    # phase changes with other ADS-B traffic of the same aircraft in between (velocity, identification), with and without
    # a receiver location: a stale frame of the old phase must never be paired with a frame of the new one
    Traj("takeoff_mixed", 51.99, 4.37, 60, 160, receiver=(52.30, 4.80), surface_until=12.0, taxi_kt=25, kinds=(0, 1, "vel", "id"), gaps=(0.4, 4, 9.6)),
    Traj("takeoff_mixed_norecv", 51.99, 4.37, 60, 160, receiver=None, surface_until=12.0, taxi_kt=25, kinds=(0, 1, "vel", "id"), gaps=(0.4, 4, 9.6)),
    Traj("landing_mixed", 52.30, 4.70, 240, 140, receiver=(52.30, 4.80), surface_from=12.0, taxi_kt=40, kinds=(0, 1, "vel", "id"), gaps=(0.4, 4, 9.6)),
    # airborne tracks across NL boundaries with a receiver location configured FAR away (> 1000 NM): the location must not
    # influence airborne decoding at all
    Traj("NL59_north_480kt_far_receiver", C.TRANS[59] - 0.01, 4.0, 0, 480, receiver=(52.0, 4.0)),
    Traj("NL30_southern_north_600kt_far_receiver", -C.TRANS[30] - 0.01, -70.0, 0, 600, receiver=(10.0, -60.0)),
    # take-off roll: surface-format frames while the aircraft is already fast (150 kt for 60 s, 2.5 NM), then airborne
    Traj("takeoff_roll_150kt", 52.30, 4.74, 0, 220, receiver=(52.30, 4.80), surface_until=60.0, taxi_kt=150, gaps=(0.4, 4, 9.6, 10.4, 24, 45)),
    # the aircraft stays listed through a long stretch without positions (identification only) and then reports again
    Traj("north_600kt_position_outage", 10.0, 5.0, 0, 600, kinds=(0, 1, "alive"), gaps=(0.4, 4, 9.6)),
    Traj("landing_mixed_norecv", 52.30, 4.70, 240, 140, receiver=None, surface_from=12.0, taxi_kt=40, kinds=(0, 1, "vel", "id"), gaps=(0.4, 4, 9.6)),
    # one address heard through its own DF17 squitters AND through DF18 rebroadcasts (ADS-R) of the same reports: whatever
    # the table does to keep the two apart, the frames it pairs for a first fix must still be less than 10 s apart
    Traj("north_600kt_DF17_and_DF18", 20.0, 5.0, 0, 600, kinds=(0, 1, "e18", "o18"), gaps=(0.4, 9.6, 10.4, 25)),
    Traj("NL30_north_600kt_DF17_and_DF18", C.TRANS[30] - 0.02, 100.0, 0, 600, kinds=(0, 1, "e18", "o18"), gaps=(0.4, 9.6, 25)),
]}
ICAO1 = 0x4840D6


def pos_msg(tr, t, oe):
    if oe == "vel":      # airborne velocity, ground speed type, 120 kt east / 100 kt north (or a surface movement when on the ground: carried by the position message itself)
        return F.es(F.me(19, [(6, 3, 1), (15, 10, 121), (26, 10, 101), (38, 9, 5)]), ICAO1, 5, 17)
    if oe == "id":
        return F.es(F.me(4, [(6, 3, 3)]) | 0x04D2C31CB1C3, ICAO1, 5, 17)
    df_ = 17
    if oe in ("e18", "o18"):
        df_, oe = 18, (0 if oe == "e18" else 1)
    lat, lon = tr.pos(t)
    surface = tr.on_ground(t)
    e = C.encode(Fr(lat), Fr(lon), oe, surface)
    if surface:
        me = C.me_surface(7, 12, 1, 40, oe, e["yz"], e["xz"])
    else:
        me = C.me_airborne(11, 0xC38, oe, e["yz"], e["xz"])
    return F.es(me, ICAO1, 5 if df_ == 17 else 6, df_)


def feed_event(d, tr, now, oe, gap):
    """apply one event to the table; returns the new time.  'alive' = the aircraft keeps sending identification
    messages every 50 s for 1500 s (it stays listed, but no position arrives while it travels 250 NM at 600 kt)."""
    if oe == "alive":
        t = now
        for _ in range(30):
            t += 50.0
            d.process_raw([t], [pos_msg(tr, t, "id")], [], [], tnow=t)
        t += gap
        d.process_raw([t], [pos_msg(tr, t, "id")], [], [], tnow=t)
        return t
    t = now + gap
    d.process_raw([t], [pos_msg(tr, t, oe)], [], [], tnow=t)
    return t


def canon(acs):
    return repr(sorted(((str(k), sorted((str(a), repr(b)) for a, b in v.items())) for k, v in acs.items())))


# ------------------------------------------------------------------ exploration 1: positions
def run_positions(name, prefix, depth, acc):
    tr = TRAJ[name]
    key_icao = "%06X" % ICAO1

    def succ(st):
        d, now, _ = st
        for oe in tr.kinds:
            for gap in (tr.gaps or GAPS1):
                d2 = copy.deepcopy(d)
                t = now + gap
                try:
                    t = feed_event(d2, tr, now, oe, gap)
                    exc = None
                except Exception as e:  # noqa: BLE001
                    exc = type(e).__name__
                yield (oe, gap), (d2, t, exc)

    def inv(st):
        d, now, exc = st
        if exc:
            return ("table:process_raw_raises:%s" % exc, {})
        ac = d.acs.get(key_icao)
        if ac is None:
            return ("table:aircraft_missing_right_after_its_message", {})
        if ac.get("tpos") == now and ac.get("lat") is not None:
            acc.c["position_updates_checked"] += 1
            lat, lon = tr.pos(now)
            dlat = abs(ac["lat"] - lat)
            dlon = C.lon_diff(ac["lon"], lon)
            if dlat > 0.001 or dlon > 0.001:
                how = "lat" if dlat > 0.001 else "lon"
                return ("table:stored_position_off_by_more_than_0.001deg:%s:%s" % (name, how),
                        {"stored": [ac["lat"], ac["lon"]], "truth": [lat, lon], "t": now})
        return None

    def key(st):
        return (round(st[1], 6), canon(st[0].acs))

    d0 = Decode(latlon=tr.receiver)
    st = (d0, 0.0, None)
    trace = []
    for oe, gap in prefix:
        d2 = copy.deepcopy(st[0])
        t = feed_event(d2, tr, st[1], oe, gap)
        st = (d2, t, None)
        trace.append((oe, gap))
        v = inv(st)
        if v:
            return [(v[0], trace, v[1])], 1, len(trace)
    res = xstate.dfs(st, key, succ, inv, depth - len(prefix), trace=tuple(trace))
    return res.violations, res.states, res.transitions + len(prefix)


def replay_positions(name, events):
    tr = TRAJ[name]
    d = Decode(latlon=tr.receiver)
    now = 0.0
    key_icao = "%06X" % ICAO1
    for oe, gap in events:
        try:
            now = feed_event(d, tr, now, oe, gap)
        except Exception as e:  # noqa: BLE001
            return "table:process_raw_raises:%s" % type(e).__name__
        ac = d.acs.get(key_icao)
        if ac is None:
            return "table:aircraft_missing_right_after_its_message"
        if ac.get("tpos") == now and ac.get("lat") is not None:
            lat, lon = tr.pos(now)
            dlat, dlon = abs(ac["lat"] - lat), C.lon_diff(ac["lon"], lon)
            if dlat > 0.001 or dlon > 0.001:
                return "table:stored_position_off_by_more_than_0.001deg:%s:%s" % (name, "lat" if dlat > 0.001 else "lon")
    return None


# ------------------------------------------------------------------ exploration 1b: batches of several messages per call
# worlds: two aircraft and (optionally) the configured receiver location.  "eu": both airborne, 600 NM apart, no receiver.
# The others put one aircraft on the ground on another continent (surface frames only resolve near a reference: without a
# configured receiver the table has nothing of its OWN to resolve them with - whatever it stores must still be right).
BWORLDS = {
    "eu": ({"A": Traj("batch_A_450kt", 52.3, 4.8, 45, 450), "B": Traj("batch_B_450kt", 50.1, 19.0, 290, 450)}, None),
    "ams_air+jfk_taxi": ({"A": Traj("batch_A_450kt", 52.3, 4.8, 45, 450), "B": Traj("batch_B_taxi", 40.64, -73.78, 130, 15, surface_until=10 ** 9, taxi_kt=15)}, None),
    "ams_air+jfk_taxi@jfk": ({"A": Traj("batch_A_450kt", 52.3, 4.8, 45, 450), "B": Traj("batch_B_taxi", 40.64, -73.78, 130, 15, surface_until=10 ** 9, taxi_kt=15)}, (40.6, -73.8)),
    "syd_taxi+ams_air": ({"A": Traj("batch_A_taxi", -33.94, 151.17, 340, 12, surface_until=10 ** 9, taxi_kt=12), "B": Traj("batch_B_450kt", 52.3, 4.8, 45, 450)}, None),
    "ams_taxi+lhr_taxi@ams": ({"A": Traj("batch_A_taxi", 52.31, 4.76, 10, 15, surface_until=10 ** 9, taxi_kt=15), "B": Traj("batch_B_taxi", 51.47, -0.46, 270, 15, surface_until=10 ** 9, taxi_kt=15)}, (52.3, 4.7)),
}
# a world may carry a third element: the spacing of the messages inside one call and which time the caller passes as tnow
BWORLDS["eu_batch_spans_40s_tnow_is_batch_start"] = (BWORLDS["eu"][0], None, {"gap": 40.0, "tnow": "first"})
BWORLDS["eu_batch_spans_12s_tnow_is_batch_start"] = (BWORLDS["eu"][0], None, {"gap": 12.0, "tnow": "first"})
BW = ["eu"]
BT = BWORLDS["eu"][0]
BICAO = {"A": 0x4840D6, "B": 0x3C6444}
BKINDS = [("A", 0), ("A", 1), ("B", 0), ("B", 1)]
BATCHES = [(k,) for k in BKINDS] + [(a, b) for a in BKINDS for b in BKINDS if a != b]


def batch_msg(who, oe, t):
    tr = BWORLDS[BW[0]][0][who]
    lat, lon = tr.pos(t)
    if tr.on_ground(t):
        e = C.encode(Fr(lat), Fr(lon), oe, True)
        return F.es(C.me_surface(7, 12, 1, 40, oe, e["yz"], e["xz"]), BICAO[who], 5, 17)
    e = C.encode(Fr(lat), Fr(lon), oe)
    return F.es(C.me_airborne(11, 0xC38, oe, e["yz"], e["xz"]), BICAO[who], 5, 17)


def batch_step(d, now, batch):
    """one process_raw call carrying 1-2 ADS-B messages 0.3 s apart; returns (decode, now', exc, [(who, t_msg)])."""
    ts, ms, info = [], [], []
    opt = BWORLDS[BW[0]][2] if len(BWORLDS[BW[0]]) > 2 else {}
    gap = opt.get("gap", 0.3)
    for i, (who, oe) in enumerate(batch):
        t = now + 1.0 + gap * i
        ts.append(t)
        ms.append(batch_msg(who, oe, t))
        info.append((who, t))
    d2 = copy.deepcopy(d)
    try:
        d2.process_raw(ts, ms, [], [], tnow=(ts[0] if opt.get("tnow") == "first" else ts[-1] + 0.2))
        exc = None
    except Exception as e:  # noqa: BLE001
        exc = type(e).__name__
    return d2, (now + 1.0 if gap <= 0.5 else ts[-1]), exc, info


def batch_inv(d, exc, info):
    if exc:
        return "table:process_raw_raises:%s" % exc
    last = {}
    for who, t in info:
        last[who] = t
    for who, t in last.items():
        ac = d.acs.get("%06X" % BICAO[who])
        if ac is None:
            return "table:aircraft_missing_right_after_its_message"
        if ac.get("tpos") == t and ac.get("lat") is not None:
            lat, lon = BWORLDS[BW[0]][0][who].pos(t)
            if abs(ac["lat"] - lat) > 0.001 or C.lon_diff(ac["lon"], lon) > 0.001:
                return "table:stored_position_off_by_more_than_0.001deg:batch_of_several_messages"
    return None


def run_batches(first, depth, acc):
    viols = []
    n = 0
    states = set()

    def rec(d, now, trace, rem):
        nonlocal n
        for b in ([first] if not trace else BATCHES):
            d2, now2, exc, info = batch_step(d, now, b)
            n += 1
            s = batch_inv(d2, exc, info)
            tr = trace + [b]
            if s:
                if len(viols) < 20:
                    viols.append((s, tr))
                continue
            states.add(hash((round(now2, 3), canon(d2.acs))))
            if rem > 1:
                rec(d2, now2, tr, rem - 1)
    rec(Decode(latlon=BWORLDS[BW[0]][1]), 0.0, [], depth)
    return viols, len(states), n


def replay_batches(batches, world="eu"):
    BW[0] = world
    d, now = Decode(latlon=BWORLDS[world][1]), 0.0
    for b in batches:
        d, now, exc, info = batch_step(d, now, tuple(tuple(x) for x in b))
        s = batch_inv(d, exc, info)
        if s:
            return s
    return None


# ------------------------------------------------------------------ exploration 2: listing and Comm-B gating
AC2 = {"A": 0xABCDEF, "B": 0x4B1A2C}
COMMB_KEYS = ["tas", "roll", "rtrk", "trk50", "gs50", "t50", "ias", "hdg", "mach", "t60", "roc60baro", "roc60ins"]


def msg2(kind, who):
    aa = AC2[who]
    if kind == "id":
        return F.es(F.me(4, [(6, 3, 3)]) | 0x04D2C31CB1C3, aa, 5, 17), "adsb"
    if kind == "pos":
        e = C.encode(Fr(521, 10), Fr(45, 10), 0)
        return F.es(C.me_airborne(11, 0xC38, 0, e["yz"], e["xz"]), aa, 5, 18 if who == "B" else 17), "adsb"
    adsb_kinds = {
        "as": F.me(19, [(6, 3, 3), (14, 1, 1), (15, 10, 200), (25, 1, 1), (26, 10, 301), (38, 9, 10)]),      # airspeed / heading subtype
        "v0": F.me(19, [(6, 3, 1), (15, 10, 0), (26, 10, 100), (38, 9, 10)]),                            # velocity with an unavailable component
        "vel": F.me(19, [(6, 3, 1), (15, 10, 121), (26, 10, 101), (38, 9, 5)]),
        "sfc0": C.me_surface(7, 0, 0, 0, 0, 1000, 2000),                                                # surface, no movement / track information
        "sfcmix": C.me_surface(7, 12, 1, 40, 1, 1000, 2000),                                            # odd surface frame (pairs with an airborne even one)
        "st": F.me(31, [(41, 3, 2), (44, 1, 1)]), "ts": F.me(29, [(6, 2, 1), (10, 11, 1001)]), "em": F.me(28, [(6, 3, 1), (12, 13, 0x0AAA)]),
        "tc0": F.me(0, rest=0x123456), "tc23": F.me(23, rest=0x123456), "gnss": C.me_airborne(20, 0x500, 0, 3000, 4000),
    }
    if kind in adsb_kinds:
        return F.es(adsb_kinds[kind], aa, 5, 18 if who == "B" else 17), "adsb"
    if kind == "b50":
        return F.long_ap(20, 0x0001838 & 0x7FFFFFF, CF.bds50(), aa), "commb"
    if kind == "b60":
        return F.long_ap(21, 0x0000AAA, CF.bds60(), aa), "commb"
    if kind in COMMB_MB:
        k_ = sorted(COMMB_MB).index(kind)
        return F.long_ap(20 + k_ % 2, [0x0001838, 0x0000AAA][k_ % 2], COMMB_MB[kind], aa), "commb"
    raise ValueError(kind)


def _commb_mb():
    """one reply per answer the register inference can give - every register, an empty MB, and MBs that match NO register
    (all ones, alternating bits, a lone bit): a listed aircraft is heard through each of them all the same."""
    from spec import bds_rules as BR_
    d = {"c10": BR_.valid("BDS10")[0], "c17": BR_.valid("BDS17")[0], "c20": BR_.valid("BDS20")[0], "c30": BR_.valid("BDS30")[0],
         "c40": BR_.valid("BDS40")[30], "c44": BR_.valid("BDS44")[50], "c45": BR_.valid("BDS45")[20], "c50": CF.bds50(), "c60": CF.bds60(),
         "cempty": 0, "cones": (1 << 56) - 1, "calt": 0xAAAAAAAAAAAAAA, "cbit": 1 << 30, "cres": 0xFFF00000000000}
    return d


COMMB_MB = _commb_mb()
ALL_COMMB = sorted(COMMB_MB)


def all_commb_events():
    """exploration 2d: a listed aircraft heard ONLY through Comm-B replies of every kind (incl. unidentifiable ones)."""
    return [("A", k_, g) for k_ in ALL_COMMB + ["cb2"] for g in (30, 57.4)] + [("A", "tick", 57.4), ("A", "tick", 30), ("A", "id", 61.2), ("B", "id", 30)]


def norm_table(acs):
    out = {}
    for k, v in acs.items():
        out[k] = {str(a): (b.upper() if isinstance(b, str) else b) for a, b in v.items()}
    return out


class S2:
    __slots__ = ("du", "dl", "now", "heard", "exc", "last")

    def __init__(self, du, dl, now, heard, exc=None, last=None):
        self.du, self.dl, self.now, self.heard, self.exc, self.last = du, dl, now, heard, exc, last


def step2(st, who, kind, gap, lag=0.0):
    """one call: the message is stamped st.now + gap, the call happens (tnow) lag seconds later; kind 'tick' is a call
    with no message at all (time passes, the decoder process still calls process_raw for every batch it is handed)."""
    t = st.now + gap
    tnow = t + lag
    du, dl = copy.deepcopy(st.du), copy.deepcopy(st.dl)
    heard = dict(st.heard)
    exc = None
    if kind == "tick":
        try:
            du.process_raw([], [], [], [], tnow=tnow)
            dl.process_raw([], [], [], [], tnow=tnow)
        except Exception as e:  # noqa: BLE001
            exc = type(e).__name__
        return S2(du, dl, tnow, heard, exc, None)
    if kind == "cb2":
        # one call carrying TWO Comm-B replies 40 s apart: first a reply from a transponder the table has never heard in
        # ADS-B (must be ignored), then a reply from `who` - which counts as heard at ITS time if it was listed
        key = "%06X" % AC2[who]
        listed_before = key in du.acs
        other = F.long_ap(20, 0x0001838, CF.bds50(), 0x7C1234)
        mine = F.long_ap(21, 0x0000AAA, CF.bds60(), AC2[who])
        try:
            du.process_raw([], [], [t - 40.0, t], [other.upper(), mine.upper()], tnow=tnow)
            dl.process_raw([], [], [t - 40.0, t], [other.lower(), mine.lower()], tnow=tnow)
        except Exception as e:  # noqa: BLE001
            exc = type(e).__name__
        if listed_before:
            heard[key] = t
        return S2(du, dl, tnow, heard, exc, (key, "commb", listed_before))
    msg, cls = msg2(kind, who)
    key = "%06X" % AC2[who]
    listed_before = key in du.acs
    try:
        if cls == "adsb":
            du.process_raw([t], [msg.upper()], [], [], tnow=tnow)
            dl.process_raw([t], [msg.lower()], [], [], tnow=tnow)
        else:
            du.process_raw([], [], [t], [msg.upper()], tnow=tnow)
            dl.process_raw([], [], [t], [msg.lower()], tnow=tnow)
    except Exception as e:  # noqa: BLE001
        exc = type(e).__name__
    if cls == "adsb" or listed_before:
        heard[key] = t
    return S2(du, dl, tnow, heard, exc, (key, cls, listed_before))


def inv2(st, acc=None):
    if st.exc:
        return ("table:process_raw_raises:%s" % st.exc, {})
    acs = st.du.acs
    for key, th in st.heard.items():
        age = st.now - th
        if age <= 59 and key not in acs:
            return ("table:aircraft_heard_within_59s_not_listed", {"icao": key, "age": age})
        if age > 61 and key in acs:
            return ("table:aircraft_silent_more_than_61s_still_listed", {"icao": key, "age": age})
    if st.last:
        key, cls, listed_before = st.last
        if cls == "commb" and not listed_before and key in acs:
            return ("table:commb_created_a_record", {"icao": key})
        if cls == "adsb" and not listed_before and key in acs:
            if any(acs[key].get(k) is not None for k in COMMB_KEYS):
                return ("table:fresh_record_carries_commb_values", {"icao": key})
        if cls == "commb" and listed_before and acc is not None:
            if any(acs.get(key, {}).get(k) is not None for k in COMMB_KEYS):
                acc.c["commb_values_merged"] += 1
    if norm_table(st.du.acs) != norm_table(st.dl.acs):
        return ("table:lower_case_history_gives_a_different_table", {"upper_keys": sorted(st.du.acs), "lower_keys": sorted(st.dl.acs)})
    return None


LAG_KINDS = ["id", "b50", "tick"]
LAG_GAPS = [0.3, 57.4, 61.2]
ORIGINS = [0.0, 0.2]
LAGS = [0.0, 1.4]


def lag_events():
    """exploration 2b: the call happens `lag` seconds after the message was stamped, and calls without any message."""
    ev = []
    for kind in LAG_KINDS:
        for who in (("A",) if kind == "tick" else ("A", "B")):
            for gap in LAG_GAPS:
                for lag in ((0.0,) if kind == "tick" else LAGS):
                    ev.append((who, kind, gap, lag))
    return ev


ALL_ADSB = ["id", "pos", "as", "v0", "vel", "sfc0", "sfcmix", "st", "ts", "em", "tc0", "tc23", "gnss"]
ALL_GAPS = [30, 57.4, 61.2]


def all_adsb_events():
    """exploration 2c: one aircraft heard through EVERY kind of ADS-B message (also those the table has nothing to learn
    from: airspeed-type velocity, velocity with an unavailable component, surface without movement information, type codes
    0 and 23, status, target state, emergency), a second aircraft for contrast."""
    return [("A", k_, g) for k_ in ALL_ADSB for g in ALL_GAPS] + [("B", "id", g) for g in ALL_GAPS]


def run_listing(prefix, depth, kinds, gaps, acc):
    def succ(st):
        if kinds == "all_adsb":
            for ev in all_adsb_events():
                yield ev, step2(st, *ev)
            return
        if kinds == "all_commb":
            for ev in all_commb_events():
                yield ev, step2(st, *ev)
            return
        if kinds == "lag":
            for ev in lag_events():
                yield ev, step2(st, *ev)
            return
        for who in ("A", "B"):
            for kind in kinds:
                for gap in gaps:
                    yield (who, kind, gap), step2(st, who, kind, gap)

    def key(st):
        return (round(st.now, 6), canon(st.du.acs), canon(st.dl.acs), tuple(sorted(st.heard.items())))

    st = S2(Decode(), Decode(), 1000.7, {})
    trace = []
    for ev in prefix:
        if ev[0] == "@":            # origin marker: the history starts at this clock value instead of 1000.7
            st = S2(Decode(), Decode(), ev[1], {})
            trace.append(tuple(ev))
            continue
        st = step2(st, *ev)
        trace.append(tuple(ev))
        v = inv2(st, acc)
        if v:
            return [(v[0], trace, v[1])], 1, len(trace)
    res = xstate.dfs(st, key, succ, lambda s: inv2(s, acc), depth - len(prefix), trace=tuple(trace))
    return res.violations, res.states, res.transitions + len(prefix)


def replay_listing(events):
    st = S2(Decode(), Decode(), 1000.7, {})
    for ev in events:
        if ev[0] == "@":
            st = S2(Decode(), Decode(), ev[1], {})
            continue
        st = step2(st, *ev)
        v = inv2(st)
        if v:
            return v[0]
    return None


# ------------------------------------------------------------------ exploration 3: robustness
def robust_alphabet(full=True):
    msgs = []
    pay = [0, (1 << 51) - 1, 0x2AAAAAAAAAAAA, 0x5555555555555 & ((1 << 51) - 1), 0x7000000000001, 0x00000FFFFF000]
    for df in (17, 18):
        for tc in range(32):
            for p in (pay if full else pay[:3]):
                msgs.append(F.es((tc << 51) | p, 0x4840D6, 5, df))
    # operational status variants setting version 0/1/2 and supplements
    for ver in range(8):
        for sup in (0, 1):
            me = F.me(31, [(41, 3, ver), (44, 1, sup), (20, 1, sup)])
            msgs.append(F.es(me, 0x4840D6, 5, 17))
    mbs = [CF.bds50(), CF.bds60(), CF.bds40(), 0, (1 << 56) - 1, 0xAAAAAAAAAAAAAA, 0x20041041041041, 0x10000000800000,
           CF.mb_of({"p44": (1, 0, 900), "hum44": (1, 0, 30)}) | (1 << 52), 0xFFF00000000000]
    for df in (20, 21):
        for mb in mbs:
            msgs.append(F.long_ap(df, 0x0001838, mb, 0x4840D6))
    return list(dict.fromkeys(msgs))


def seed_states():
    """tables reached by short realistic histories (version known, NIC supplements, fresh/stale positions...)."""
    tr = TRAJ["stationary"]
    seeds = {"empty": []}
    ev = pos_msg(tr, 1.0, 0)
    od = pos_msg(tr, 2.0, 1)
    for ver in (0, 1, 2):
        me = F.me(31, [(41, 3, ver), (44, 1, 1), (20, 1, 1)])
        seeds["ver%d+pos" % ver] = [(1.0, ev), (2.0, od), (3.0, F.es(me, ICAO1, 5, 17))]
    seeds["pos_fresh"] = [(1.0, ev), (2.0, od)]
    seeds["even_only"] = [(1.0, ev)]
    tx = TRAJ["taxi_across_equator"]
    seeds["surface_pair"] = [(1.0, pos_msg(tx, 1.0, 0)), (2.0, pos_msg(tx, 2.0, 1))]
    seeds["mixed_pair"] = [(1.0, pos_msg(tx, 1.0, 0)), (2.0, od)]
    return seeds


def run_robust(seed_name, firsts, alpha, depth, acc):
    seeds = seed_states()
    d0 = Decode(latlon=(0.30, 32.60) if "surface" in seed_name or "mixed" in seed_name else None)
    for t, m in seeds[seed_name]:
        d0.process_raw([t], [m], [], [], tnow=t)
    viols = []
    n = 0
    states = set()

    def feed(d, m, t):
        if int(m[:2], 16) >> 3 in (17, 18):
            d.process_raw([t], [m], [], [], tnow=t)
        else:
            d.process_raw([], [], [t], [m], tnow=t)

    def rec(d, t, trace, rem):
        nonlocal n
        for i, m in (enumerate(alpha) if trace else [(i, alpha[i]) for i in firsts]):
            d2 = copy.deepcopy(d)
            n += 1
            try:
                feed(d2, m, t + 1.5)
            except Exception as e:  # noqa: BLE001
                viols.append(("table:process_raw_raises:%s" % type(e).__name__, {"seed": seed_name, "msgs": trace + [m]}))
                continue
            if rem > 1:
                rec(d2, t + 1.5, trace + [m], rem - 1)
            else:
                states.add(hash(canon(d2.acs)))
    rec(d0, 10.0, [], depth)
    return viols, len(states), n


def replay_robust(seed_name, msgs):
    seeds = seed_states()
    d = Decode(latlon=(0.30, 32.60) if "surface" in seed_name or "mixed" in seed_name else None)
    for t, m in seeds[seed_name]:
        d.process_raw([t], [m], [], [], tnow=t)
    t = 10.0
    for m in msgs:
        t += 1.5
        try:
            if int(m[:2], 16) >> 3 in (17, 18):
                d.process_raw([t], [m], [], [], tnow=t)
            else:
                d.process_raw([], [], [t], [m], tnow=t)
        except Exception as e:  # noqa: BLE001
            return "table:process_raw_raises:%s" % type(e).__name__
    return None


# ------------------------------------------------------------------ exploration 3b: record features x inferred registers
def feature_seeds():
    """tables that differ in what is known about the aircraft when a Comm-B reply arrives: position none / airborne with
    altitude / airborne with the altitude field 0 (stored alt is None) / surface; velocity none / ground speed; version
    none / 1 / 2.  Every combination (24 seed states), all messages within 3 s so that everything is fresh."""
    tr, tx = TRAJ["stationary"], TRAJ["taxi_across_equator"]

    def air(t, oe, alt12):
        lat, lon = tr.pos(t)
        e = C.encode(Fr(lat), Fr(lon), oe, False)
        return F.es(C.me_airborne(11, alt12, oe, e["yz"], e["xz"]), ICAO1, 5, 17)
    pos = {"nopos": [], "air_alt": [air(1.0, 0, 0xC38), air(1.2, 1, 0xC38)], "air_noalt": [air(1.0, 0, 0), air(1.2, 1, 0)],
           "surface": [pos_msg(tx, 1.0, 0), pos_msg(tx, 1.2, 1)]}
    # TC19 subtype 1, 300 kt east / 200 kt north, vertical rate available
    vel = {"novel": [], "gs": [F.es(F.me(19, [(6, 3, 1), (14, 1, 0), (15, 10, 301), (25, 1, 0), (26, 10, 201), (36, 1, 0), (37, 1, 0), (38, 9, 10)]), ICAO1, 5, 17)]}
    ver = {"nover": []}
    for v in (1, 2):
        ver["ver%d" % v] = [F.es(F.me(31, [(41, 3, v), (44, 1, 1), (20, 1, 1)]), ICAO1, 5, 17)]
    seeds = {}
    for pn, pm_ in pos.items():
        for vn, vm in vel.items():
            for rn, rm in ver.items():
                seeds["%s+%s+%s" % (pn, vn, rn)] = pm_ + vm + rm
    return seeds


def register_alphabet():
    """Comm-B replies grouped by what the real infer() says about them and by which BDS 5,0 / 6,0 status bits they set
    (only used to pick the alphabet: one payload per distinct (answer, status pattern), so that every branch of the Comm-B merge - including multi-candidate answers such as
    'BDS50,BDS60' - is driven from every seed state), in a DF20 carrier whose altitude decodes and in one whose altitude
    field is zero, and in DF21."""
    import checks.c12 as c12
    from spec import bds_rules as BR
    pool = []
    for reg in ("BDS10", "BDS17", "BDS20", "BDS30", "BDS40", "BDS44", "BDS45", "BDS50", "BDS60"):
        v = BR.valid(reg)
        pool += v[:: max(1, len(v) // 40)]
    pool += [mb for mb, _, _, _ in c12.constructed_5060()]
    pool += [0, (1 << 56) - 1, 0xAAAAAAAAAAAAAA, 0x55555555555555]
    by = {}
    stat = [1, 12, 13, 24, 35, 46]      # status bits of the BDS 5,0 / 6,0 fields: which values a merge would read
    for mb in dict.fromkeys(pool):
        sig = tuple((mb >> (56 - b)) & 1 for b in stat)
        for rest in (0x0001838, 0x0000000):
            m = F.long_ap(20, rest, mb, ICAO1)
            try:
                ans = str(pms.bds.infer(m))
            except Exception as e:  # noqa: BLE001
                ans = "raises:" + type(e).__name__
            lst = by.setdefault((ans, rest, sig), [])
            if not lst:
                lst.append(m)
                if rest:
                    lst.append(F.long_ap(21, 0x0000AAA, mb, ICAO1))
    msgs = []
    for k in sorted(by):
        msgs += by[k]
    return list(dict.fromkeys(msgs)), sorted({k[0] for k in by})


def run_features(seed_name, acc, full=False):
    seeds = feature_seeds()
    alpha, answers = register_alphabet()
    # second message: the whole alphabet (thorough) or one reply per distinct infer() answer and carrier (quick)
    seen, second = set(), []
    for m in alpha:
        k = (str(pms.bds.infer(m)), m[:8])
        if full or k not in seen:
            seen.add(k)
            second.append(m)
    d0 = Decode(latlon=(0.30, 32.60))
    t = 1.0
    for m in seeds[seed_name]:
        d0.process_raw([t], [m], [], [], tnow=t)
        t += 0.2
    viols, n, states = [], 0, set()
    adsb_again = seeds[seed_name][-1:]      # the last ADS-B message once more, after the Comm-B replies
    for i, m1 in enumerate(alpha):
        d1 = copy.deepcopy(d0)
        n += 1
        try:
            d1.process_raw([], [], [t + 1.5], [m1], tnow=t + 1.5)
        except Exception as e:  # noqa: BLE001
            viols.append(("table:process_raw_raises:%s" % type(e).__name__, {"seed": seed_name, "msgs": [m1]}))
            continue
        for m2 in second + adsb_again:
            d2 = copy.deepcopy(d1)
            n += 1
            try:
                if int(m2[:2], 16) >> 3 in (17, 18):
                    d2.process_raw([t + 3.0], [m2], [], [], tnow=t + 3.0)
                else:
                    d2.process_raw([], [], [t + 3.0], [m2], tnow=t + 3.0)
            except Exception as e:  # noqa: BLE001
                viols.append(("table:process_raw_raises:%s" % type(e).__name__, {"seed": seed_name, "msgs": [m1, m2]}))
                continue
            states.add(hash(canon(d2.acs)))
    # replies from transponders that are NOT in the table but whose address is *related* to a listed one (one bit away,
    # the register number XOR-ed onto a byte, +-1, byte-swapped): each must leave the table exactly as it was
    if seeds[seed_name]:
        base = canon(d0.acs)
        near = [ICAO1 ^ (1 << b) for b in range(24)] + [ICAO1 ^ (r << sh) for r in (0x10, 0x17, 0x20, 0x30, 0x40, 0x44, 0x45, 0x50, 0x60)
                                                        for sh in (0, 8, 16)] + [(ICAO1 + 1) & 0xFFFFFF, (ICAO1 - 1) & 0xFFFFFF,
                                                                                 ((ICAO1 & 0xFF) << 16) | (ICAO1 & 0xFF00) | (ICAO1 >> 16)]
        dd = copy.deepcopy(d0)
        for m1 in second:
            v = int(m1, 16)
            data = v >> 24
            for addr in near:
                m = F.hexn((data << 24) | ((v & 0xFFFFFF) ^ ICAO1 ^ addr), 112)       # same data, AP re-overlaid with the other address
                n += 1
                try:
                    dd.process_raw([], [], [t + 1.5], [m], tnow=t + 1.5)
                except Exception as e:  # noqa: BLE001
                    viols.append(("table:process_raw_raises:%s" % type(e).__name__, {"seed": seed_name, "msgs": [m]}))
                    dd = copy.deepcopy(d0)
                    continue
                d_ = copy.deepcopy(d0)
                d_.process_raw([], [], [], [], tnow=t + 1.5)
                if canon(dd.acs) != canon(d_.acs):
                    viols.append(("table:reply_from_an_unlisted_transponder_changed_the_table", {"seed": seed_name, "msgs": [m]}))
                    dd = copy.deepcopy(d0)
    acc.c["commb_alphabet"] = len(alpha)
    acc.c["infer_answers_in_alphabet"] = len(answers)
    return viols, len(states), n


def replay_features(seed_name, msgs):
    seeds = feature_seeds()
    d = Decode(latlon=(0.30, 32.60))
    t = 1.0
    for m in seeds[seed_name]:
        d.process_raw([t], [m], [], [], tnow=t)
        t += 0.2
    for k, m in enumerate(msgs):
        tt = t + 1.5 * (k + 1)
        try:
            if int(m[:2], 16) >> 3 in (17, 18):
                d.process_raw([tt], [m], [], [], tnow=tt)
            else:
                unlisted = str(pms.icao(m)).upper() not in {str(k_).upper() for k_ in d.acs}
                ref = copy.deepcopy(d)
                d.process_raw([], [], [tt], [m], tnow=tt)
                if unlisted:
                    ref.process_raw([], [], [], [], tnow=tt)
                    if canon(d.acs) != canon(ref.acs):
                        return "table:reply_from_an_unlisted_transponder_changed_the_table"
        except Exception as e:  # noqa: BLE001
            return "table:process_raw_raises:%s" % type(e).__name__
    return None



# ------------------------------------------------------------------ workers
def w_any(task):
    kind = task[0]
    acc = Acc()
    acc.cov["states"] = 0
    acc.cov["transitions"] = 0
    if kind == "pos":
        _, name, prefix, depth = task
        v, s, tr = run_positions(name, prefix, depth, acc)
        for sig, trace, info in v:
            acc.bad(sig, {"kind": "pos", "traj": name, "events": [list(e) for e in trace], "info": info})
        acc.out.add(("pos", name, tuple(prefix)))
        if prefix and prefix[0] == (0, 0.4) and len(prefix) > 1 and prefix[1] == (1, 4):
            acc.samples.append({"exploration": "positions", "traj": name, "prefix": [list(p) for p in prefix], "depth": depth,
                                "first_msg": pos_msg(TRAJ[name], 0.4, 0)})
    elif kind == "batch":
        _, first, depth = task[:3]
        BW[0] = task[3] if len(task) > 3 else "eu"
        v, s, tr = run_batches(first, depth, acc)
        for sig, trace in v:
            acc.bad(sig + ("" if BW[0] == "eu" else ":" + BW[0]), {"kind": "batch", "world": BW[0], "batches": [[list(x) for x in b] for b in trace]})
        acc.out.add(("batch", first, BW[0]))
    elif kind == "feat":
        _, seed_name, full = task
        v, s, tr = run_features(seed_name, acc, full)
        for sig, info in v:
            acc.bad(sig, {"kind": "feat", "seed": info["seed"], "msgs": info["msgs"]})
        acc.out.add(("feat", seed_name))
    elif kind == "list":
        _, prefix, depth, kinds, gaps = task
        v, s, tr = run_listing(prefix, depth, kinds, gaps, acc)
        for sig, trace, info in v:
            acc.bad(sig, {"kind": "list", "events": [list(e) for e in trace], "info": info})
        acc.out.add(("list", tuple(prefix)))
        if len(prefix) > 1 and tuple(prefix[0]) == ("A", "id", 0.3) and tuple(prefix[1]) == ("A", "id", 0.3):
            acc.samples.append({"exploration": "listing", "prefix": [list(p) for p in prefix], "msg": msg2("id", "A")[0]})
    else:
        _, seed_name, firsts, full, depth = task
        alpha = robust_alphabet(full)
        v, s, tr = run_robust(seed_name, firsts, alpha, depth, acc)
        for sig, info in v:
            acc.bad(sig, {"kind": "robust", "seed": info["seed"], "msgs": info["msgs"]})
        acc.out.add(("robust", seed_name, tuple(firsts)))
    acc.n = tr
    acc.cov["states"] = s
    acc.cov["transitions"] = tr
    acc.c["transitions_" + kind] = tr
    return acc.res()


def run(ctx):
    tasks = []
    d1 = 5 if ctx.thorough else 4
    ev1 = [(oe, g) for oe in (0, 1) for g in GAPS1]
    for name in TRAJ:
        evn = [(oe, g) for oe in TRAJ[name].kinds for g in (TRAJ[name].gaps or GAPS1)]
        for a in evn:
            for b in evn:
                tasks.append(("pos", name, (a, b), d1))
    kinds = ["id", "pos", "b50", "b60"] if ctx.thorough else ["id", "pos", "b50"]
    gaps = [0.3, 30, 58.9, 59.4, 60.6, 61.2] if ctx.thorough else [0.3, 30, 58.9, 60.6, 61.2]
    ev2 = [(w, k, g) for w in ("A", "B") for k in kinds for g in gaps]
    d2 = 4
    for a in ev2:
        for b in ev2:
            tasks.append(("list", (a, b), d2, kinds, gaps))
    # the same histories with the clock starting at (nearly) zero: time stamps below 1 s, "last heard" values that
    # truncate to 0 (receivers that stamp relative to their own start)
    for t0 in ORIGINS:
        for a in ev2:
            tasks.append(("list", (("@", t0, 0), a), d2, kinds, gaps))
    ev2b = lag_events()
    for a in ev2b:
        for b in ev2b:
            tasks.append(("list", (a, b), 5 if ctx.thorough else 4, "lag", None))
    for a in all_adsb_events():
        tasks.append(("list", (a,), 4 if ctx.thorough else 3, "all_adsb", None))
    for a in all_commb_events():
        if a[1] in ALL_COMMB + ["cb2"]:
            tasks.append(("list", (("A", "id", 0.3), a), 4 if ctx.thorough else 3, "all_commb", None))
    for b in BATCHES:
        tasks.append(("batch", b, 4 if ctx.thorough else 3))
        for w_ in sorted(BWORLDS):
            if w_ != "eu":
                tasks.append(("batch", b, 4 if ctx.thorough else 3, w_))
    for sn in feature_seeds():
        tasks.append(("feat", sn, ctx.thorough))
    alpha = robust_alphabet(ctx.thorough)
    seeds = list(seed_states())
    for s in seeds:
        for c in chunks(range(len(alpha)), 12 if not ctx.thorough else 4):
            tasks.append(("rob", s, list(c), ctx.thorough, 2))
    if ctx.thorough:
        sub = robust_alphabet(False)
        for c in chunks(range(len(sub)), 2):
            tasks.append(("rob", "ver2+pos", list(c), False, 3))
    ctx.cov["states"] = 0
    ctx.cov["transitions"] = 0
    ctx.pmap(w_any, tasks, chunksize=2)
    ctx.cov["traces_validated_against_impl"] = ctx.cov["transitions"]
    ctx.cov["exhaustive"] = True
    ctx.cov["bound"] = ("positions depth %d over %d events x %d trajectories; listing depth %d over %d events; robustness "
                        "pairs%s over %d messages from %d seed states" % (d1, len(ev1), len(TRAJ), d2, len(ev2),
                                                                          "+triples" if ctx.thorough else "", len(alpha), len(seeds)))
    ctx.cov["explanation"] = "every transition is one real Decode.process_raw call on a deep copy of the parent state"


def replay(case):
    if case["kind"] == "pos":
        s = replay_positions(case["traj"], [tuple(e) for e in case["events"]])
    elif case["kind"] == "batch":
        s = replay_batches(case["batches"], case.get("world", "eu"))
        if s and case.get("world", "eu") != "eu":
            s += ":" + case["world"]
    elif case["kind"] == "feat":
        s = replay_features(case["seed"], case["msgs"])
    elif case["kind"] == "list":
        s = replay_listing([tuple(e) for e in case["events"]])
    else:
        s = replay_robust(case["seed"], case["msgs"])
    return [(s, case)] if s else []
