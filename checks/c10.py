"""C10 - aircraft identification: callsign / category / BDS 2,0 cs20, is20."""
import itertools
import random

from engine import loader
from engine.runner import Acc
from engine.util import call, chunks, other_bits, vary_case
from spec import frames as F

LEVEL = "exploration"
RULE = ("5 base strings x 8 positions x all 64 six-bit codes; every pair of positions x all 37^2 legal code pairs "
        "(thorough: every triple over a 12-symbol alphabet); TC1-4 x category 0-7 x DF17/18; the same strings as "
        "BDS 2,0 in DF20/21; bg-1 over every header/parity bit on a subset; seeded random strings as extras; "
        "distinct = distinct 8-code tuples")
ASSUMPTIONS = ["six-bit alphabet per Annex 10 Table 3-9: 1-26 A-Z, 32 space, 48-57 digits; callsign() drops illegal "
               "codes, cs20() marks them '#' and is20() is then False (all-zero characters are allowed by is20)"]

pms = loader.load("P")

LEGAL = {i: chr(64 + i) for i in range(1, 27)}
LEGAL[32] = "_"
LEGAL.update({i: chr(i) for i in range(48, 58)})
LEGAL_CODES = sorted(LEGAL)
INV = {v: k for k, v in LEGAL.items()}


def codes_of(s):
    return [INV[c] for c in s]


def pack(codes):
    v = 0
    for c in codes:
        v = (v << 6) | c
    return v


def shape_ok(got, codes):
    """identifications containing codes outside the Annex 10 alphabet are not covered by the statement: each such code
    may be rendered as '#' or dropped (the two decoders differ, and either may change); the legal characters must still
    come out, in order."""
    import re
    if not isinstance(got, str):
        return False
    pat = "".join(re.escape(LEGAL[c]) if c in LEGAL else "#?" for c in codes)
    return re.fullmatch(pat, got) is not None


def judge(kind, codes, msg, extra=None):
    exp_adsb = "".join(LEGAL.get(c, "") for c in codes)
    exp_20 = "".join(LEGAL.get(c, "#") for c in codes)
    all_legal = all(c in LEGAL for c in codes)
    if kind == "callsign":
        r = call(pms.adsb.callsign, msg)
        if (r != ("ok", exp_adsb)) if all_legal else (r[0] != "ok" or not shape_ok(r[1], codes)):
            return "callsign" + (":raises" if r[0] == "exc" else "")
        r = call(pms.adsb.category, msg)
        if r != ("ok", extra):
            return "category"
        return None
    if kind == "cs20":
        r = call(pms.commb.cs20, msg)
        if (r != ("ok", exp_20)) if all_legal else (r[0] != "ok" or not shape_ok(r[1], codes)):
            return "cs20" + (":raises" if r[0] == "exc" else "")
        r = call(pms.commb.is20, msg)
        legal = all(c in LEGAL for c in codes)
        if legal and r != ("ok", True):
            return "is20:rejects_legal_identification"
        if not legal and any(codes) and r != ("ok", False):
            return "is20:accepts_illegal_character"
        return None
    raise ValueError(kind)


def frames_for(codes, variant):
    """(kind, msg, extra) for ADS-B and BDS20 carriers; variant rotates TC, category, DF, address."""
    cs = pack(codes)
    tc = 1 + variant % 4
    cat = (variant // 4) % 8
    df = 17 + (variant // 32) % 2
    aa = [0x406B90, 0, 0xFFFFFF, 0xABCDEF][variant % 4]
    me = F.me(tc, [(6, 3, cat)]) | cs
    yield "callsign", F.es(me, aa, variant % 8, df, [0, 0xFFFFFF][variant % 2]), cat
    mb = (0x20 << 48) | cs
    h27 = [0, (1 << 27) - 1, 0x2A5A5A5][variant % 3]
    yield "cs20", F.long_ap(20 + variant % 2, h27, mb, aa), None


def w_strings(arg):
    strings, nvar = arg
    acc = Acc()
    for idx, codes in enumerate(strings):
        for v in range(nvar):
            for kind, msg, extra in frames_for(codes, idx + v * 5):
                acc.n += 1
                msg = vary_case(msg, idx + v)
                s = judge(kind, codes, msg, extra)
                if s:
                    acc.bad(s, {"kind": kind, "codes": list(codes), "msg": msg, "extra": extra})
        acc.out.add(tuple(codes))
    return acc.res()


def w_bg1(arg):
    strings = arg
    acc = Acc()
    for codes in strings:
        for tc in range(1, 5):
            for cat in (0, 5, 7):
                me = F.me(tc, [(6, 3, cat)]) | pack(codes)
                base = int(F.es(me, 0x406B90, 5, 17, 0), 16)
                for mask in other_bits(112, list(range(1, 6)) + list(range(33, 89))):
                    msg = F.hexn(base ^ mask, 112)
                    acc.n += 1
                    s = judge("callsign", codes, msg, cat)
                    if s:
                        acc.bad(s + ":bg1", {"kind": "callsign", "codes": list(codes), "msg": msg, "extra": cat})
        for df in (20, 21):
            base = int(F.long_ap(df, 0, (0x20 << 48) | pack(codes), 0x123456), 16)
            for mask in other_bits(112, list(range(1, 6)) + list(range(33, 89))):
                msg = F.hexn(base ^ mask, 112)
                acc.n += 1
                s = judge("cs20", codes, msg)
                if s:
                    acc.bad(s + ":bg1", {"kind": "cs20", "codes": list(codes), "msg": msg, "extra": None})
    return acc.res()


def run(ctx):
    bases = [codes_of(s) for s in ("AAAAAAAA", "________", "99999999", "A1_B2_C3", "ZZZZZZZZ")]
    strings = []
    for b in bases:
        for pos in range(8):
            for c in range(64):
                s = list(b)
                s[pos] = c
                strings.append(tuple(s))
    b = bases[3]
    for p, q in itertools.combinations(range(8), 2):
        for c1 in LEGAL_CODES:
            for c2 in LEGAL_CODES:
                s = list(b)
                s[p], s[q] = c1, c2
                strings.append(tuple(s))
    if ctx.thorough:
        alpha = [1, 2, 26, 32, 48, 57, 13, 16, 31 + 1, 0, 27, 63]
        for p, q, r in itertools.combinations(range(8), 3):
            for c1, c2, c3 in itertools.product(alpha, repeat=3):
                s = list(bases[0])
                s[p], s[q], s[r] = c1, c2, c3
                strings.append(tuple(s))
    # identification fields whose twelve hex digits all come from a two-digit class - only 0/1 (the field then looks
    # like a bit string), only A/F (letters only), only 0/9 (decimal digits only): every one of the 3 x 4096 fields
    for lo, hi in ((0x0, 0x1), (0xA, 0xF), (0x0, 0x9)):
        for bits in range(4096):
            v = 0
            for d in range(12):
                v = (v << 4) | (hi if (bits >> (11 - d)) & 1 else lo)
            strings.append(tuple((v >> (6 * (7 - i))) & 63 for i in range(8)))
    # identifications the source of the tree under test writes down (upper-case words of up to 8 characters)
    import re
    from engine.util import source_words
    for wd in sorted(x for x in source_words()["strs"] if re.fullmatch(r"[A-Z0-9 _]{1,8}", x)):
        t = wd.replace("_", " ")
        strings.append(tuple(codes_of(t.ljust(8).replace(" ", "_"))))
        strings.append(tuple(codes_of(t.rjust(8).replace(" ", "_"))))
    rng = random.Random(ctx.seed)
    strings += [tuple(rng.choice(LEGAL_CODES) for _ in range(8)) for _ in range(2000)]
    strings += [tuple(rng.randrange(64) for _ in range(8)) for _ in range(500)]
    strings = list(dict.fromkeys(strings))
    nvar = 8 if ctx.thorough else 3
    ctx.pmap(w_any, [("q", 3), ("rel", None)] + [("s", (c, nvar)) for c in chunks(strings, 500)] +
             [("b", c) for c in chunks([tuple(x) for x in bases] + strings[:40:3], 2)], ambient=True)
    ctx.cov["strings"] = len(strings)
    ctx.samples += [{"codes": list(bases[3]), "adsb": list(frames_for(bases[3], 7))[0][1], "bds20": list(frames_for(bases[3], 7))[1][1]}]


def seq_thunks(tag=None):
    """identifications of different lengths (trailing spaces), all spaces, the same text in ADS-B and BDS 2,0 carriers."""
    th = []
    for txt in ("SPEEDB1D", "KLM57K__", "N1______", "________", "AFR1234_", "A1_B2_C9"):
        codes = codes_of(txt)
        for kind, msg, extra in frames_for(codes, len(th)):
            th.append(("%s:%s" % (kind, txt), (lambda k=kind, c=codes, m=msg, e=extra: judge(k, c, m, e))))
    return th


def w_seqx(depth):
    from engine.util import explore_sequences
    acc = Acc()
    explore_sequences(acc, seq_thunks(), depth, "ident")
    return acc.res()


def w_rel(_):
    """relations between the identification and other fields of the same frame: the identification spells the frame's
    own address (units without a flight id do send that), its parity, or its type code / category digits."""
    acc = Acc()
    k = 0
    for aa in (0x4840D6, 0xABCDEF, 0x123456, 0x000000, 0x0A1B2C, 0x999999):
        for text in ("%06X  " % aa, "  %06X" % aa, "%06X%02X" % (aa, aa >> 16), ("%06X" % aa)[::-1] + "  "):
            codes = tuple(codes_of(text.replace(" ", "_")))
            for tc in (1, 4):
                for df in (17, 18):
                    k += 1
                    me = F.me(tc, [(6, 3, k % 8)]) | pack(codes)
                    msg = vary_case(F.es(me, aa, 5, df), k)
                    acc.n += 1
                    s = judge("callsign", codes, msg, k % 8)
                    if s:
                        acc.bad(s + ":identification_spells_the_address", {"kind": "callsign", "codes": list(codes), "msg": msg, "extra": k % 8})
            for df in (20, 21):
                k += 1
                msg = vary_case(F.long_ap(df, 0x0001838, (0x20 << 48) | pack(codes), aa), k)
                acc.n += 1
                s = judge("cs20", codes, msg, None)
                if s:
                    acc.bad(s + ":identification_spells_the_address", {"kind": "cs20", "codes": list(codes), "msg": msg, "extra": None})
            acc.out.add(("rel", aa, text))
    return acc.res()


def w_any(t):
    if t[0] == "q":
        return w_seqx(t[1])
    if t[0] == "rel":
        return w_rel(t[1])
    return {"s": w_strings, "b": w_bg1}[t[0]](t[1])


def replay(case):
    if case["kind"] == "seqx":
        from engine.util import replay_sequence
        s = replay_sequence(seq_thunks(), case["sequence"])
        return [(s, case)] if s else []
    s = judge(case["kind"], case["codes"], case["msg"], case.get("extra"))
    return [(s, case), (s + ":bg1", case), (s + ":identification_spells_the_address", case)] if s else []
