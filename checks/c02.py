"""C02 - ICAO address recovery: exact for every downlink format, canonical across formats and hex case."""
import random
import re

from engine import loader
from engine.runner import Acc
from engine.util import np_str, call, chunks
from spec import crc as R
from spec import frames as F

LEVEL = "exploration"
RULE = ("DF 0..31 x {56,112} bits x address alphabet (walking one/zero, 000000, FFFFFF, letter-bearing values, seeded) "
        "x payload alphabet (zeros, ones, every single payload bit, 0x55, 0xAA, seeded) x hex case {UPPER, lower, "
        "mIxEd}; frames built by the reference AA / AP / PI overlay encoder; every sequence of <= 3 (4) calls over {icao, adsb.icao, crc, crc(encode), df} on one frame string must keep returning the address; the live table (Decode) fed ident / position / Comm-B of one transponder in all 27 letter-case combinations must hold one record with the Comm-B merged; thorough adds all 2^24 addresses on a "
        "DF20 and a DF5 carrier; distinct = distinct (DF, length, address) triples")
ASSUMPTIONS = ["frames whose length does not match their format (e.g. 112-bit DF4) are only required to give None for "
               "formats without an address; for AP formats both lengths are built with the reference overlay"]

pms = loader.load("P")

AP_DF = (0, 4, 5, 16, 20, 21)
AA_DF = (11, 17, 18)
NATURAL = {0: 56, 4: 56, 5: 56, 11: 56, 16: 112, 17: 112, 18: 112, 20: 112, 21: 112}


def addresses(seed, extra=24):
    a = [0, 0xFFFFFF, 0x406B90, 0xABCDEF, 0xA5A5A5, 0x5A5A5A, 0xFEDCBA, 0x00000A, 0xF00000]
    a += [1 << i for i in range(24)] + [0xFFFFFF ^ (1 << i) for i in range(24)]
    rng = random.Random(seed)
    a += [rng.getrandbits(24) for _ in range(extra)]
    # addresses the source of the tree under test writes down (6-hex-digit strings, integers of 17..24 bits): an address
    # that is treated specially has to be named somewhere
    from engine.util import source_words
    w = source_words()
    lit = sorted({int(x, 16) for x in w["strs"] if re.fullmatch(r"[0-9A-Fa-f]{6}", x)} | {x for x in w["ints"] if 0xFFFF < x < (1 << 24)})
    a += lit[:48]
    return list(dict.fromkeys(a))


def payloads(nbits, seed, singles=True):
    p = F.backgrounds(nbits, seed, 2)
    if singles:
        p += [1 << i for i in range(nbits)]
    return p


def build(df, n, addr, pay, ic=0):
    """frame of n bits for format df carrying addr; pay fills the bits that are neither DF, AA nor parity."""
    if df in AA_DF:
        if n == 56:
            data = ((df << 3 | (pay & 7)) << 24) | addr
        else:
            data = (((df << 3 | (pay & 7)) << 24 | addr) << 56) | ((pay >> 3) & ((1 << 56) - 1))
        ov = ic if df == 11 else 0
        return F.hexn(R.downlink(data, n, ov), n)
    nd = n - 24 - 5
    data = (df << nd) | (pay & ((1 << nd) - 1))
    return F.hexn(R.downlink(data, n, addr), n)


def judge(kind, p):
    if kind == "addr":
        df, msg, addr = p
        exp = "%06X" % addr
        r = call(pms.icao, msg)
        if r[0] != "ok" or not isinstance(r[1], str) or r[1].upper() != exp:
            return "icao:DF%d:wrong_address" % df
        r2 = call(pms.adsb.icao, msg)
        if r2 != r:
            return "adsb.icao:differs_from_common"
        if call(pms.icao, np_str(msg)) != r:
            return "icao:numpy_str_frame_differs_from_str_frame"
        r3 = call(pms.allcall.icao, msg)
        if df == 11 and r3 != r:
            return "allcall.icao:DF11"
        if df != 11 and r3 != ("exc", "RuntimeError"):
            return "allcall.icao:guard"
        return None
    if kind == "none":
        df, msg = p
        r = call(pms.icao, msg)
        return None if r == ("ok", None) else "icao:DF%d:not_None" % df
    if kind == "canon":
        df1, m1, df2, m2 = p
        r1, r2 = call(pms.icao, m1), call(pms.icao, m2)
        if r1[0] != "ok" or r2[0] != "ok" or r1[1] != r2[1]:
            aa = {df1, df2} & set(AA_DF)
            return "icao:not_canonical:%s" % ("AA-format letter case" if aa and (m1.upper() != m1 or m2.upper() != m2) else "formats")
        return None
    raise ValueError(kind)


def w_addr(arg):
    addrs, seed, singles = arg
    acc = Acc()
    for addr in addrs:
        ref_msg = build(20, 112, addr, 0)
        for df in AP_DF + AA_DF:
            for n in (56, 112):
                if n != NATURAL[df] and df in AA_DF:
                    continue
                nd = (n - 32) if df in AA_DF else n - 29
                if df in AA_DF:
                    nd = 3 + (56 if n == 112 else 0)
                pays = payloads(nd, seed, singles and n == NATURAL[df])
                for i, pay in enumerate(pays):
                    # DF11: the interrogator code (CL,IC = 0..79: II 0-15, SI 1-63) is overlaid on the parity; every legal
                    # code on the first two payloads, one code of every CL group (rotating) on the others
                    ics = [0] if df != 11 else (list(range(80)) if i < 2 else [0, 5, 16 + (i % 16), 37, 48 + (i % 16), 64 + (i % 16), 79])
                    for ic in ics:
                        m = build(df, n, addr, pay, ic)
                        for cs in ("U", "l", "m") if i < 6 else ("Ulm"[i % 3],):
                            mm = F.with_case(m, cs)
                            acc.n += 1
                            s = judge("addr", (df, mm, addr))
                            if s:
                                acc.bad(s, {"kind": "addr", "p": [df, mm, addr]})
                            acc.n += 1
                            s = judge("canon", (20, ref_msg, df, mm))
                            if s:
                                acc.bad(s, {"kind": "canon", "p": [20, ref_msg, df, mm]})
                acc.out.add((df, n, addr))
    return acc.res()


def w_none(arg):
    seed = arg
    acc = Acc()
    for df in range(32):
        if df in AP_DF or df in AA_DF:
            continue
        for n in (56, 112):
            for pay in payloads(n - 5, seed, True):
                m = F.raw(n, df, pay)
                for cs in "Ul":
                    acc.n += 1
                    s = judge("none", (df, F.with_case(m, cs)))
                    if s:
                        acc.bad(s, {"kind": "none", "p": [df, F.with_case(m, cs)]})
            acc.out.add((df, n, None))
    return acc.res()


def w_all24(arg):
    lo, hi = arg
    acc = Acc()
    f = pms.icao
    for addr in range(lo, hi):
        for df, n in ((20, 112), (5, 56)):
            m = build(df, n, addr, 0x1234567 if n == 56 else (0xA5 << 75) | addr)
            acc.n += 1
            if f(m) != "%06X" % addr:
                acc.bad("icao:DF%d:wrong_address" % df, {"kind": "addr", "p": [df, m, addr]})
    acc.c["all24_addresses"] = hi - lo
    return acc.res()


SEQ_OPS = ("icao", "crc", "crc_enc", "adsb_icao", "df")


def w_wire(seed):
    """the transmitted address/parity field at its special values: for every AP format, length and payload the one
    address for which the wire field reads 000000 / FFFFFF / 000001 (address = data parity xor that value); for the AA
    formats the address for which the PI field reads those values (DF11: with interrogator codes 0, 5, 37, 79)."""
    acc = Acc()
    for df in AP_DF:
        for n in (56, 112):
            nd = n - 29
            for pay in payloads(nd, seed, False) + [1, 1 << (nd - 1)]:
                data = (df << nd) | (pay & ((1 << nd) - 1))
                for wire in (0, 0xFFFFFF, 1):
                    addr = R.parity(data, n - 24) ^ wire
                    m = F.hexn((data << 24) | wire, n)
                    for mm in (m, m.lower()):
                        acc.n += 1
                        s = judge("addr", (df, mm, addr))
                        if s:
                            acc.bad(s + ":wire_field_%06X" % wire, {"kind": "addr", "p": [df, mm, addr]})
            acc.out.add(("wire", df))
    # relations between fields: the payload repeats the address (string search / replace on the frame would be fooled)
    for addr in (0x4840D6, 0xABCDEF, 0x000001, 0x101010, 0xFFFFFE):
        rep = int(("%06X" % addr) * 5, 16)
        for df in AP_DF + AA_DF:
            for n in ((56, 112) if df in AP_DF else (NATURAL[df],)):
                nd = (n - 29) if df in AP_DF else (3 + (56 if n == 112 else 0))
                for sh in (0, 4, 8, 1):
                    pay = (rep >> sh) & ((1 << nd) - 1)
                    if df in AA_DF and n == 112:
                        pay = (((rep >> sh) & ((1 << 56) - 1)) << 3) | 5
                    m = build(df, n, addr, pay, 0)
                    for mm in (m, m.lower()):
                        acc.n += 1
                        s = judge("addr", (df, mm, addr))
                        if s:
                            acc.bad(s + ":payload_repeats_the_address", {"kind": "addr", "p": [df, mm, addr]})
    for df in AA_DF:
        n = NATURAL[df]
        for ca in range(8):
            for ic in ((0, 5, 37, 79) if df == 11 else (0,)):
                for wire in (0, 0xFFFFFF, 1):
                    if n == 56:
                        addr = R.solve_low24((df << 3) | ca, 8, wire ^ ic)
                        m = F.hexn(R.downlink((((df << 3) | ca) << 24) | addr, 56, ic), 56)
                    else:
                        # the ME field is fixed first; then PI = parity(header, address, ME): solve for the address with ME = 0
                        # by linearity: parity(hdr|a|ME) = parity(hdr|a|0) -> a 24-bit unknown in the middle, solved by search
                        # over the linear map of the address bits
                        me = 0x58C382D690C8AC
                        base = (((df << 3) | ca) << 80) | me
                        want = wire ^ R.parity(base, 88)
                        basis = {}
                        for i in range(24):
                            img, pre = R.parity(1 << (56 + i), 88), 1 << i
                            while img:
                                hb = img.bit_length() - 1
                                if hb not in basis:
                                    basis[hb] = (img, pre)
                                    break
                                img ^= basis[hb][0]
                                pre ^= basis[hb][1]
                        addr, t = 0, want
                        while t:
                            hb = t.bit_length() - 1
                            t ^= basis[hb][0]
                            addr ^= basis[hb][1]
                        m = F.hexn(R.downlink(base | (addr << 56), 112, 0), 112)
                    assert int(m[-6:], 16) == wire, (m, wire)
                    for mm in (m, m.lower()):
                        acc.n += 1
                        s = judge("addr", (df, mm, addr))
                        if s:
                            acc.bad(s + ":wire_field_%06X" % wire, {"kind": "addr", "p": [df, mm, addr]})
        acc.out.add(("wire", df))
    return acc.res()


def run_seq(msg, addr, ops):
    """execute the call sequence on the SAME string; every icao must return the address."""
    exp = "%06X" % addr
    for i, op in enumerate(ops):
        if op == "icao":
            r = call(pms.icao, msg)
        elif op == "adsb_icao":
            r = call(pms.adsb.icao, msg)
        elif op == "crc":
            r = call(pms.crc, msg)
            continue
        elif op == "crc_enc":
            r = call(pms.crc, msg, True)
            continue
        else:
            call(pms.df, msg)
            continue
        if r[0] != "ok" or r[1] is None or r[1].upper() != exp:
            return "icao:result_depends_on_previous_calls", i
    return None, None


def spelling(h, idx):
    letters = [i for i, c in enumerate(h) if c in "ABCDEF"]
    if (1 << len(letters)) <= idx:
        raise SystemExit("HARNESS-ERROR: frame %s has too few hex letters for %d isolated sequences" % (h, idx))
    m = list(h)
    for b, pos in enumerate(letters):
        if (idx >> b) & 1:
            m[pos] = m[pos].lower()
    return "".join(m)


def w_seq(arg):
    import itertools
    frames, depth = arg
    acc = Acc()
    for h, addr in frames:
        idx = 0
        for L in range(1, depth + 1):
            for seq in itertools.product(SEQ_OPS, repeat=L):
                if "icao" not in seq and "adsb_icao" not in seq:
                    continue
                idx += 1
                m = spelling(h, idx)           # each sequence starts from a spelling never used before
                s_, i = run_seq(m, addr, seq)
                acc.n += L
                if s_:
                    acc.bad(s_, {"kind": "seq", "p": [m, addr, list(seq[:i + 1])]})
        acc.out.add(("seq", h))
    return acc.res()


def judge_table(addr, c1, c2, c3):
    """ADS-B ident in case c1, ADS-B position in case c2, Comm-B in case c3, same transponder: one key, Comm-B merged."""
    from pyModeS.streamer.decode import Decode
    a = F.with_case(F.es(F.me(4, [(6, 3, 1)]) | 0x04D2C31CB1C3, addr, 5, 17), c1)
    b = F.with_case(F.es(F.me(11, rest=0x58C382D690C8AC), addr, 5, 18), c2)
    c = F.with_case(F.long_ap(20, 0x0001838, 0x81951536E024D4, addr), c3)
    d = Decode()
    try:
        d.process_raw([10.0], [a], [], [], tnow=10.0)
        d.process_raw([11.0], [b], [], [], tnow=11.0)
        d.process_raw([], [], [12.0], [c], tnow=12.0)
    except Exception as e:  # noqa: BLE001
        return "table:raises:%s" % type(e).__name__
    keys = sorted(d.acs)
    if len(keys) != 1:
        return "table:one_transponder_several_records"
    if keys[0].upper() != "%06X" % addr:
        return "table:wrong_key"
    if d.acs[keys[0]].get("t") != 12.0:
        return "table:commb_of_same_transponder_not_merged"
    ref = Decode()
    ref.process_raw([10.0], [a.upper()], [], [], tnow=10.0)
    if sorted(ref.acs) != keys:
        return "table:key_depends_on_letter_case"
    return None


def w_table(arg):
    addrs = arg
    acc = Acc()
    for addr in addrs:
        for c1 in "Ulm":
            for c2 in "Ulm":
                for c3 in "Ulm":
                    acc.n += 1
                    s = judge_table(addr, c1, c2, c3)
                    if s:
                        acc.bad(s, {"kind": "table", "p": [addr, c1, c2, c3]})
        acc.out.add(("table", addr))
    return acc.res()


def w_any(t):
    if t[0] == "t":
        return w_table(t[1])
    if t[0] == "q":
        return w_seq(t[1])
    return {"a": w_addr, "n": w_none, "x": w_all24, "w": w_wire}[t[0]](t[1])


def run(ctx):
    addrs = addresses(ctx.seed)
    tasks = [("a", (c, ctx.seed, True)) for i, c in enumerate(chunks(addrs, 3))] + [("n", ctx.seed)]
    tasks += [("t", c) for c in chunks([a for a in addrs if any(ch in "ABCDEF" for ch in "%06X" % a)][:24] + [0x123456], 3)]
    sq = []
    for df in AP_DF + AA_DF:
        n = NATURAL[df]
        for salt in range(1, 3000):
            pay = (0xABCDEF * salt * 2654435761) & ((1 << (n - 29)) - 1)
            h = build(df, n, 0xFADEBC, pay, 0)
            if sum(c in "ABCDEF" for c in h) >= (10 if ctx.thorough else 8):
                sq.append((h, 0xFADEBC))
                break
    tasks += [("q", ([f], 4 if ctx.thorough else 3)) for f in sq]
    tasks.append(("w", ctx.seed))
    ctx.pmap(w_any, tasks, ambient=True)
    if ctx.thorough:
        step = 1 << 15
        ctx.pmap(w_any, [("x", (lo, lo + step)) for lo in range(0, 1 << 24, step)])     # the full address sweep once (not repeated after the ambient calls)
    ctx.samples += [{"address": "ABCDEF", "DF17": F.with_case(build(17, 112, 0xABCDEF, 0x28), "l"),
                     "DF20": build(20, 112, 0xABCDEF, 0x55), "DF5": build(5, 56, 0xABCDEF, 3), "DF11_IC37": build(11, 56, 0xABCDEF, 5, 37)}]
    ctx.cov["addresses"] = len(addrs)


def replay(case):
    if case["kind"] == "seq":
        s_, _ = run_seq(case["p"][0], case["p"][1], case["p"][2])
        return [(s_, case)] if s_ else []
    if case["kind"] == "table":
        s = judge_table(*case["p"])
        return [(s, case)] if s else []
    s = judge(case["kind"], tuple(case["p"]))
    return ([(s, case), (s + ":payload_repeats_the_address", case)] + [(s + ":wire_field_%06X" % w, case) for w in (0, 0xFFFFFF, 1)]) if s else []
